package main

import (
	"crypto/sha256"
	"encoding/hex"
	"fmt"
	"os"
	"path/filepath"
	"sort"
	"strings"

	"golang.org/x/tools/go/packages"
	"golang.org/x/tools/go/ssa"
	"golang.org/x/tools/go/ssa/ssautil"
)

const repoDir = "/repo"
const repoMod = "github.com/rulego/streamsql"

type HarnessRef struct {
	Pkg   string   `json:"pkg"`   // directory relative to /repo ("condition")
	Files []string `json:"files"` // files under /verif/harness/<pkg>/
}

func verifRoot() string {
	if r := os.Getenv("VERIF_ROOT"); r != "" {
		return r
	}
	exe, err := os.Executable()
	if err == nil {
		d := filepath.Dir(filepath.Dir(exe))
		if _, err := os.Stat(filepath.Join(d, "harness")); err == nil {
			return d
		}
	}
	return "/verif"
}

// overlayFiles maps virtual /repo paths to real harness files.
func overlayFiles(hs []HarnessRef) map[string]string {
	root := verifRoot()
	m := map[string]string{
		filepath.Join(repoDir, "internal/zzverif/verif.go"): filepath.Join(root, "harness/zzverif/verif.go"),
	}
	for _, h := range hs {
		for _, f := range h.Files {
			m[filepath.Join(repoDir, h.Pkg, "zz_verif_"+f)] = filepath.Join(root, "harness", h.Pkg, f)
		}
	}
	return m
}

func LoadProgram(hs []HarnessRef) (*Program, error) {
	ov := map[string][]byte{}
	for virt, real := range overlayFiles(hs) {
		b, err := os.ReadFile(real)
		if err != nil {
			return nil, err
		}
		ov[virt] = b
	}
	cfg := &packages.Config{
		Mode:       packages.LoadAllSyntax,
		Dir:        repoDir,
		Overlay:    ov,
		BuildFlags: []string{"-tags=verif"},
		Env:        append(os.Environ(), "GOFLAGS=-mod=mod", "GOPROXY=off", "GOSUMDB=off", "GOTOOLCHAIN=local"),
	}
	pats := []string{"./internal/zzverif"}
	seen := map[string]bool{}
	for _, h := range hs {
		if !seen[h.Pkg] {
			seen[h.Pkg] = true
			pats = append(pats, "./"+h.Pkg)
		}
	}
	pkgs, err := packages.Load(cfg, pats...)
	if err != nil {
		return nil, err
	}
	var errs []string
	packages.Visit(pkgs, nil, func(p *packages.Package) {
		for _, e := range p.Errors {
			errs = append(errs, e.Error())
		}
	})
	if len(errs) > 0 {
		if len(errs) > 10 {
			errs = errs[:10]
		}
		return nil, fmt.Errorf("load errors (the tree does not compile with the harness):\n%s", strings.Join(errs, "\n"))
	}
	prog, _ := ssautil.AllPackages(pkgs, ssa.InstantiateGenerics)
	prog.Build()
	P := &Program{prog: prog, pkgs: map[string]*ssa.Package{}, repoMod: repoMod}
	for _, p := range prog.AllPackages() {
		P.pkgs[p.Pkg.Path()] = p
	}
	return P, nil
}

// sourceHashes returns sha256 prefixes of the repo source files containing the given functions.
func (P *Program) sourceHashes(fns map[string]bool) map[string]string {
	files := map[string]bool{}
	for _, pkg := range P.prog.AllPackages() {
		if !strings.HasPrefix(pkg.Pkg.Path(), repoMod) {
			continue
		}
		for _, m := range pkg.Members {
			if f, ok := m.(*ssa.Function); ok && fns[f.String()] {
				if f.Pos().IsValid() {
					files[P.prog.Fset.Position(f.Pos()).Filename] = true
				}
			}
		}
	}
	// methods and closures: resolve by walking all functions
	for fn := range ssautil.AllFunctions(P.prog) {
		if fns[fn.String()] && fn.Pos().IsValid() {
			files[P.prog.Fset.Position(fn.Pos()).Filename] = true
		}
	}
	out := map[string]string{}
	for f := range files {
		if !strings.HasPrefix(f, repoDir+"/") || strings.Contains(f, "zz_verif_") || strings.Contains(f, "internal/zzverif") {
			continue
		}
		b, err := os.ReadFile(f)
		if err != nil {
			continue
		}
		h := sha256.Sum256(b)
		out[strings.TrimPrefix(f, repoDir+"/")] = hex.EncodeToString(h[:6])
	}
	return out
}

func (P *Program) harnessEntries(pkgPath string) []string {
	pkg := P.pkgs[pkgPath]
	var out []string
	if pkg == nil {
		return nil
	}
	for name, m := range pkg.Members {
		if f, ok := m.(*ssa.Function); ok && strings.HasPrefix(name, "Verif") && f.Signature.Params().Len() == 0 && f.Signature.Results().Len() == 0 {
			out = append(out, name)
		}
	}
	sort.Strings(out)
	return out
}
