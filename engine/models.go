package main

import (
	"errors"
	"fmt"
	"go/types"
	"math"
	"strconv"
	"strings"
	"time"
	"unicode"

	"golang.org/x/tools/go/ssa"
)

// ---------- native conversion of concrete values ----------

func (e *Exec) toNative(v Value, t types.Type) (interface{}, bool) {
	switch x := v.(type) {
	case *Term:
		if !x.Const {
			return nil, false
		}
		b := basicOf(t)
		if b == nil {
			return nil, false
		}
		switch b.Kind() {
		case types.Bool, types.UntypedBool:
			return x.U == 1, true
		case types.Int, types.UntypedInt:
			return int(sext(x.U, 64)), true
		case types.Int8:
			return int8(x.U), true
		case types.Int16:
			return int16(x.U), true
		case types.Int32, types.UntypedRune:
			return int32(x.U), true
		case types.Int64:
			return int64(x.U), true
		case types.Uint:
			return uint(x.U), true
		case types.Uint8:
			return uint8(x.U), true
		case types.Uint16:
			return uint16(x.U), true
		case types.Uint32:
			return uint32(x.U), true
		case types.Uint64, types.Uintptr:
			return uint64(x.U), true
		case types.Float64, types.UntypedFloat:
			return x.F, true
		case types.Float32:
			return float32(x.F), true
		}
	case StrV:
		if x.IsConcrete() {
			return x.Concrete(), true
		}
	case IfaceV:
		if x.t == nil {
			return nil, true
		}
		if isNamed(x.t, "errors", "errorString") {
			if p, ok := x.v.(PtrV); ok && p.obj != nil {
				if s, ok := e.load(p).(StructV)[0].(StrV); ok && s.IsConcrete() {
					return errors.New(s.Concrete()), true
				}
			}
			return nil, false
		}
		if _, isBasic := x.t.Underlying().(*types.Basic); isBasic {
			if _, named := x.t.(*types.Named); named {
				// named basic types may have String methods; only plain formatting of time.Duration is common
				if isNamed(x.t, "time", "Duration") {
					return nil, false
				}
			}
			return e.toNative(x.v, x.t)
		}
		if mv, ok := x.v.(MapV); ok {
			mt, _ := x.t.Underlying().(*types.Map)
			if mt != nil && mv.obj != nil {
				md := mv.obj.val.(*MapData)
				out := map[string]interface{}{}
				for i, k := range md.keys {
					if md.dead[i] {
						continue
					}
					ks, ok := e.toNative(k, mt.Key())
					if !ok {
						return nil, false
					}
					kstr, isStr := ks.(string)
					if !isStr {
						return nil, false
					}
					n, ok := e.toNative(md.vals[i], mt.Elem())
					if !ok {
						return nil, false
					}
					out[kstr] = n
				}
				return out, true
			}
		}
		if sl, ok := x.v.(SliceV); ok {
			st, _ := x.t.Underlying().(*types.Slice)
			if st != nil {
				var out []interface{}
				for _, el := range e.sliceElems(sl) {
					n, ok := e.toNative(el, st.Elem())
					if !ok {
						return nil, false
					}
					out = append(out, n)
				}
				return out, true
			}
		}
	}
	return nil, false
}

// sprintf models fmt.Sprintf. Concrete arguments are formatted by the real fmt; symbolic ones give
// opaque strings (decimal parts stay comparable).
func (e *Exec) sprintf(format StrV, args SliceV) StrV {
	elems := e.sliceElems(args)
	if format.IsConcrete() {
		nat := make([]interface{}, len(elems))
		all := true
		for i, a := range elems {
			n, ok := e.toNative(a, nil)
			if !ok {
				all = false
				break
			}
			nat[i] = n
		}
		if all {
			return StrV{s: fmt.Sprintf(format.Concrete(), nat...)}
		}
	} else {
		return StrV{opq: &opaqueStr{parts: []opaquePart{{kind: 3}}}}
	}
	// verb-wise
	f := format.Concrete()
	var parts []opaquePart
	lit := func(s string) {
		if s != "" {
			parts = append(parts, opaquePart{lit: s})
		}
	}
	ai := 0
	i := 0
	start := 0
	for i < len(f) {
		if f[i] != '%' {
			i++
			continue
		}
		lit(f[start:i])
		j := i + 1
		for j < len(f) && strings.IndexByte("+-# 0123456789.", f[j]) >= 0 {
			j++
		}
		if j >= len(f) {
			break
		}
		verb := f[j]
		spec := f[i : j+1]
		i = j + 1
		start = i
		if verb == '%' {
			lit("%")
			continue
		}
		if ai >= len(elems) {
			lit("%!" + string(verb) + "(MISSING)")
			continue
		}
		a := elems[ai]
		ai++
		if n, ok := e.toNative(a, nil); ok {
			lit(fmt.Sprintf(spec, n))
			continue
		}
		iv, _ := a.(IfaceV)
		plain := spec == "%"+string(verb)
		if verb == 'T' && plain && iv.t != nil {
			// the dynamic type's name does not depend on the (symbolic) value
			lit(types.TypeString(iv.t, func(p *types.Package) string { return p.Name() }))
			continue
		}
		switch x := iv.v.(type) {
		case *Term:
			if x.S.K == SBV && plain && (verb == 'd' || verb == 'v') {
				_, signed, _ := intWidth(basicOf(iv.t))
				parts = append(parts, opaquePart{kind: 1, dec: x, uns: !signed})
				continue
			}
			if x.S.K == SFP64 && plain && verb == 'v' {
				parts = append(parts, opaquePart{kind: 5, dec: x})
				continue
			}
			if x.S.K == SBool && plain && (verb == 'v' || verb == 't') {
				if e.Branch(x) {
					lit("true")
				} else {
					lit("false")
				}
				continue
			}
		case StrV:
			if plain && (verb == 's' || verb == 'v') {
				if x.opq != nil {
					parts = append(parts, x.opq.parts...)
				} else {
					parts = append(parts, opaquePart{kind: 2, sym: e.strBytes(x)})
				}
				continue
			}
			if x.opq == nil && symByteCount(x) <= 3 && strings.IndexByte("qsvxX", verb) >= 0 {
				// other verbs (%q, padded %s): enumerate the few symbolic bytes and format natively
				cs := e.concretizeStr(x)
				lit(fmt.Sprintf(spec, cs.Concrete()))
				continue
			}
		}
		parts = append(parts, opaquePart{kind: 3})
	}
	lit(f[start:])
	// only literal text and symbolic byte strings: an ordinary string of concrete length
	plainOnly := true
	for _, p := range parts {
		if p.kind != 0 && p.kind != 2 {
			plainOnly = false
		}
	}
	if plainOnly {
		var bs []*Term
		for _, p := range parts {
			if p.kind == 0 {
				for k := 0; k < len(p.lit); k++ {
					bs = append(bs, e.byteConst(p.lit[k]))
				}
			} else {
				bs = append(bs, p.sym...)
			}
		}
		return e.mkStr(bs)
	}
	return StrV{opq: &opaqueStr{parts: parts}}
}

func (e *Exec) sprint(args SliceV) StrV {
	elems := e.sliceElems(args)
	nat := make([]interface{}, len(elems))
	for i, a := range elems {
		n, ok := e.toNative(a, nil)
		if !ok {
			return StrV{opq: &opaqueStr{parts: []opaquePart{{kind: 3}}}}
		}
		nat[i] = n
	}
	return StrV{s: fmt.Sprint(nat...)}
}

// ---------- time ----------

const (
	clockLo = int64(1735689600) * 1e9 // 2025-01-01
	clockHi = int64(2051222400) * 1e9 // 2035-01-01
)

func (e *Exec) now() *Term {
	tt := e.tt
	c := e.freshVar(fmt.Sprintf("clock!%d", e.clockN), BV(64))
	e.clockN++
	cons := tt.And(tt.SLe(tt.BVConst(uint64(clockLo), 64), c), tt.SLe(c, tt.BVConst(uint64(clockHi), 64)))
	if e.lastNow != nil {
		cons = tt.And(cons, tt.SLe(e.lastNow, c))
	}
	e.Assume(cons)
	e.lastNow = c
	return c
}

const zeroTimeUnixNano = -6795364578871345152

func (e *Exec) timeNs(v Value) *Term {
	t := v.(TimeV)
	if t.zero {
		return e.tt.BVConst(i2u(zeroTimeUnixNano), 64)
	}
	return t.ns
}

func (e *Exec) newTimerChan(ticker bool) ChanV {
	o := e.newObj(&ChanData{cap: 1, etype: nil, timer: true, ticker: ticker}, nil)
	o.tag = "timer"
	e.timers = append(e.timers, o)
	return ChanV{o}
}

func (e *Exec) stopTimerPtr(p PtrV) {
	if p.obj == nil {
		return
	}
	st := e.load(p).(StructV)
	ch, _ := st[0].(ChanV)
	for j, t := range e.timers {
		if t == ch.obj {
			e.timers = append(e.timers[:j:j], e.timers[j+1:]...)
			break
		}
	}
}

func init() {
	I := intrinsics
	I["time.Now"] = func(e *Exec, fn *ssa.Function, a []Value, c *Frame) Value { return TimeV{ns: e.now()} }
	I["time.Unix"] = func(e *Exec, fn *ssa.Function, a []Value, c *Frame) Value {
		tt := e.tt
		return TimeV{ns: tt.Add(tt.Mul(a[0].(*Term), tt.BVConst(1e9, 64)), a[1].(*Term))}
	}
	I["time.UnixMilli"] = func(e *Exec, fn *ssa.Function, a []Value, c *Frame) Value {
		return TimeV{ns: e.tt.Mul(a[0].(*Term), e.tt.BVConst(1e6, 64))}
	}
	I["time.UnixMicro"] = func(e *Exec, fn *ssa.Function, a []Value, c *Frame) Value {
		return TimeV{ns: e.tt.Mul(a[0].(*Term), e.tt.BVConst(1e3, 64))}
	}
	I["time.Since"] = func(e *Exec, fn *ssa.Function, a []Value, c *Frame) Value {
		return e.tt.Sub(e.now(), e.timeNs(a[0]))
	}
	I["time.Sleep"] = func(e *Exec, fn *ssa.Function, a []Value, c *Frame) Value { return nil }
	cmp := func(f func(e *Exec, x, y TimeV) *Term) intrinsicFn {
		return func(e *Exec, fn *ssa.Function, a []Value, c *Frame) Value {
			return f(e, a[0].(TimeV), a[1].(TimeV))
		}
	}
	I["(time.Time).Before"] = cmp(func(e *Exec, x, y TimeV) *Term {
		if x.zero || y.zero {
			return e.tt.Bool(x.zero && !y.zero)
		}
		return e.tt.SLt(x.ns, y.ns)
	})
	I["(time.Time).After"] = cmp(func(e *Exec, x, y TimeV) *Term {
		if x.zero || y.zero {
			return e.tt.Bool(!x.zero && y.zero)
		}
		return e.tt.SLt(y.ns, x.ns)
	})
	I["(time.Time).Equal"] = cmp(func(e *Exec, x, y TimeV) *Term {
		if x.zero || y.zero {
			return e.tt.Bool(x.zero == y.zero)
		}
		return e.tt.Eq(x.ns, y.ns)
	})
	I["(time.Time).Compare"] = func(e *Exec, fn *ssa.Function, a []Value, c *Frame) Value {
		tt := e.tt
		x, y := a[0].(TimeV), a[1].(TimeV)
		if x.zero || y.zero {
			switch {
			case x.zero && y.zero:
				return tt.BVConst(0, 64)
			case x.zero:
				return tt.BVConst(^uint64(0), 64)
			}
			return tt.BVConst(1, 64)
		}
		return tt.Ite(tt.SLt(x.ns, y.ns), tt.BVConst(^uint64(0), 64), tt.Ite(tt.Eq(x.ns, y.ns), tt.BVConst(0, 64), tt.BVConst(1, 64)))
	}
	I["(time.Time).IsZero"] = func(e *Exec, fn *ssa.Function, a []Value, c *Frame) Value {
		return e.tt.Bool(a[0].(TimeV).zero)
	}
	I["(time.Time).Add"] = func(e *Exec, fn *ssa.Function, a []Value, c *Frame) Value {
		x := a[0].(TimeV)
		d := a[1].(*Term)
		if x.zero {
			if d.Const && d.U == 0 {
				return x
			}
			e.unsupported("Add on zero time.Time")
		}
		return TimeV{ns: e.tt.Add(x.ns, d)}
	}
	I["(time.Time).Sub"] = func(e *Exec, fn *ssa.Function, a []Value, c *Frame) Value {
		x, y := a[0].(TimeV), a[1].(TimeV)
		if x.zero || y.zero {
			if x.zero && y.zero {
				return e.tt.BVConst(0, 64)
			}
			// saturates in Go
			if y.zero {
				return e.tt.BVConst(uint64(math.MaxInt64), 64)
			}
			return e.tt.BVConst(1<<63, 64)
		}
		return e.tt.Sub(x.ns, y.ns)
	}
	I["(time.Time).UnixNano"] = func(e *Exec, fn *ssa.Function, a []Value, c *Frame) Value { return e.timeNs(a[0]) }
	I["(time.Time).UnixMilli"] = func(e *Exec, fn *ssa.Function, a []Value, c *Frame) Value {
		x := a[0].(TimeV)
		if x.zero {
			return e.tt.BVConst(i2u(-62135596800000), 64)
		}
		return e.floorDivConst(x.ns, 1e6)
	}
	I["(time.Time).UnixMicro"] = func(e *Exec, fn *ssa.Function, a []Value, c *Frame) Value {
		x := a[0].(TimeV)
		if x.zero {
			return e.tt.BVConst(i2u(-62135596800000000), 64)
		}
		return e.floorDivConst(x.ns, 1e3)
	}
	I["(time.Time).Unix"] = func(e *Exec, fn *ssa.Function, a []Value, c *Frame) Value {
		x := a[0].(TimeV)
		if x.zero {
			return e.tt.BVConst(i2u(-62135596800), 64)
		}
		return e.floorDivConst(x.ns, 1e9)
	}
	ident := func(e *Exec, fn *ssa.Function, a []Value, c *Frame) Value { return a[0] }
	I["(time.Time).UTC"] = ident
	I["(time.Time).Local"] = ident
	I["(time.Time).In"] = ident
	I["(time.Time).Round"] = func(e *Exec, fn *ssa.Function, a []Value, c *Frame) Value {
		d := a[1].(*Term)
		if d.Const && sext(d.U, 64) <= 0 {
			return a[0]
		}
		e.unsupported("time.Time.Round")
		return nil
	}
	I["(time.Time).Truncate"] = func(e *Exec, fn *ssa.Function, a []Value, c *Frame) Value {
		d := a[1].(*Term)
		if d.Const && sext(d.U, 64) <= 0 {
			return a[0]
		}
		e.unsupported("time.Time.Truncate")
		return nil
	}
	I["(time.Time).Format"] = func(e *Exec, fn *ssa.Function, a []Value, c *Frame) Value {
		return StrV{opq: &opaqueStr{parts: []opaquePart{{kind: 3}}}}
	}
	I["(time.Time).String"] = I["(time.Time).Format"]
	I["time.ParseDuration"] = func(e *Exec, fn *ssa.Function, a []Value, c *Frame) Value {
		d, err := time.ParseDuration(argStr(e, a[0], "time.ParseDuration"))
		if err != nil {
			return TupleV{e.tt.BVConst(0, 64), e.mkError(err.Error())}
		}
		return TupleV{e.tt.BVConst(uint64(int64(d)), 64), IfaceV{}}
	}
	I["(time.Duration).String"] = func(e *Exec, fn *ssa.Function, a []Value, c *Frame) Value {
		t := a[0].(*Term)
		if t.Const {
			return StrV{s: time.Duration(sext(t.U, 64)).String()}
		}
		return StrV{opq: &opaqueStr{parts: []opaquePart{{kind: 3}}}}
	}
	I["time.After"] = func(e *Exec, fn *ssa.Function, a []Value, c *Frame) Value { return e.newTimerChan(false) }
	I["time.Tick"] = func(e *Exec, fn *ssa.Function, a []Value, c *Frame) Value { return e.newTimerChan(true) }
	mkTimer := func(ticker bool, tname string) intrinsicFn {
		return func(e *Exec, fn *ssa.Function, a []Value, c *Frame) Value {
			pt := fn.Signature.Results().At(0).Type().(*types.Pointer)
			st := e.zero(pt.Elem()).(StructV)
			ns := make(StructV, len(st))
			copy(ns, st)
			ns[0] = e.newTimerChan(ticker)
			o := e.newObj(ns, pt.Elem())
			return PtrV{obj: o}
		}
	}
	I["time.NewTicker"] = mkTimer(true, "Ticker")
	I["time.NewTimer"] = mkTimer(false, "Timer")
	I["(*time.Ticker).Stop"] = func(e *Exec, fn *ssa.Function, a []Value, c *Frame) Value {
		e.stopTimerPtr(a[0].(PtrV))
		return nil
	}
	I["(*time.Ticker).Reset"] = func(e *Exec, fn *ssa.Function, a []Value, c *Frame) Value { return nil }
	I["(*time.Timer).Stop"] = func(e *Exec, fn *ssa.Function, a []Value, c *Frame) Value {
		e.stopTimerPtr(a[0].(PtrV))
		return e.tt.Bool(true)
	}
	I["(*time.Timer).Reset"] = func(e *Exec, fn *ssa.Function, a []Value, c *Frame) Value { return e.tt.Bool(true) }
	I["time.AfterFunc"] = func(e *Exec, fn *ssa.Function, a []Value, c *Frame) Value {
		e.unsupported("time.AfterFunc")
		return nil
	}

	// ---- strings / strconv / unicode / math: native call-outs for concrete arguments ----
	ss := func(name string, f func(string, string) interface{}) {
		prev := I[name]
		_ = prev
		I[name] = func(e *Exec, fn *ssa.Function, a []Value, c *Frame) Value {
			x, y := a[0].(StrV), a[1].(StrV)
			if x.IsConcrete() && y.IsConcrete() {
				return e.fromNative(f(x.Concrete(), y.Concrete()))
			}
			return e.strModel(fn, name, a)
		}
	}
	ss("strings.Contains", func(a, b string) interface{} { return strings.Contains(a, b) })
	ss("strings.ContainsAny", func(a, b string) interface{} { return strings.ContainsAny(a, b) })
	ss("strings.HasPrefix", func(a, b string) interface{} { return strings.HasPrefix(a, b) })
	ss("strings.HasSuffix", func(a, b string) interface{} { return strings.HasSuffix(a, b) })
	ss("strings.Index", func(a, b string) interface{} { return strings.Index(a, b) })
	ss("strings.LastIndex", func(a, b string) interface{} { return strings.LastIndex(a, b) })
	ss("strings.IndexAny", func(a, b string) interface{} { return strings.IndexAny(a, b) })
	ss("strings.EqualFold", func(a, b string) interface{} { return strings.EqualFold(a, b) })
	ss("strings.Compare", func(a, b string) interface{} { return strings.Compare(a, b) })
	ss("strings.TrimPrefix", func(a, b string) interface{} { return strings.TrimPrefix(a, b) })
	ss("strings.TrimSuffix", func(a, b string) interface{} { return strings.TrimSuffix(a, b) })
	ss("strings.Trim", func(a, b string) interface{} { return strings.Trim(a, b) })
	ss("strings.TrimLeft", func(a, b string) interface{} { return strings.TrimLeft(a, b) })
	ss("strings.TrimRight", func(a, b string) interface{} { return strings.TrimRight(a, b) })
	ss("strings.Count", func(a, b string) interface{} { return strings.Count(a, b) })
	ss("strings.Split", func(a, b string) interface{} { return strings.Split(a, b) })
	s1 := func(name string, f func(string) interface{}) {
		I[name] = func(e *Exec, fn *ssa.Function, a []Value, c *Frame) Value {
			x := a[0].(StrV)
			if x.IsConcrete() {
				return e.fromNative(f(x.Concrete()))
			}
			return e.strModel(fn, name, a)
		}
	}
	s1("strings.ToLower", func(a string) interface{} { return strings.ToLower(a) })
	s1("strings.ToUpper", func(a string) interface{} { return strings.ToUpper(a) })
	s1("strings.TrimSpace", func(a string) interface{} { return strings.TrimSpace(a) })
	s1("strings.Fields", func(a string) interface{} { return strings.Fields(a) })
	s1("strings.Title", func(a string) interface{} { return strings.Title(a) })
	I["strings.IndexByte"] = func(e *Exec, fn *ssa.Function, a []Value, c *Frame) Value {
		x := a[0].(StrV)
		b := a[1].(*Term)
		if x.IsConcrete() && b.Const {
			return e.fromNative(strings.IndexByte(x.Concrete(), byte(b.U)))
		}
		return e.strModel(fn, "strings.IndexByte", a)
	}
	I["strings.IndexRune"] = func(e *Exec, fn *ssa.Function, a []Value, c *Frame) Value {
		x := a[0].(StrV)
		b := a[1].(*Term)
		if x.IsConcrete() && b.Const {
			return e.fromNative(strings.IndexRune(x.Concrete(), rune(sext(b.U, 32))))
		}
		return e.strModel(fn, "strings.IndexRune", a)
	}
	I["strings.Repeat"] = func(e *Exec, fn *ssa.Function, a []Value, c *Frame) Value {
		x := a[0].(StrV)
		n := argInt(e, a[1], "strings.Repeat")
		if n < 0 {
			e.runtimePanic("strings: negative Repeat count")
		}
		r := StrV{}
		for i := 0; i < n; i++ {
			r = e.strConcat(r, x)
		}
		return r
	}
	I["strings.Replace"] = func(e *Exec, fn *ssa.Function, a []Value, c *Frame) Value {
		x, o, n := a[0].(StrV), a[1].(StrV), a[2].(StrV)
		if x.IsConcrete() && o.IsConcrete() && n.IsConcrete() {
			return StrV{s: strings.Replace(x.Concrete(), o.Concrete(), n.Concrete(), argInt(e, a[3], "Replace"))}
		}
		return e.strModel(fn, "strings.Replace", a)
	}
	I["strings.ReplaceAll"] = func(e *Exec, fn *ssa.Function, a []Value, c *Frame) Value {
		x, o, n := a[0].(StrV), a[1].(StrV), a[2].(StrV)
		if x.IsConcrete() && o.IsConcrete() && n.IsConcrete() {
			return StrV{s: strings.ReplaceAll(x.Concrete(), o.Concrete(), n.Concrete())}
		}
		return e.strModel(fn, "strings.ReplaceAll", a)
	}
	I["strings.SplitN"] = func(e *Exec, fn *ssa.Function, a []Value, c *Frame) Value {
		x, o := a[0].(StrV), a[1].(StrV)
		if x.IsConcrete() && o.IsConcrete() {
			return e.fromNative(strings.SplitN(x.Concrete(), o.Concrete(), argInt(e, a[2], "SplitN")))
		}
		return e.strModel(fn, "strings.SplitN", a)
	}
	I["strings.Join"] = func(e *Exec, fn *ssa.Function, a []Value, c *Frame) Value {
		elems := e.sliceElems(a[0].(SliceV))
		sep := a[1].(StrV)
		r := StrV{}
		for i, el := range elems {
			if i > 0 {
				r = e.strConcat(r, sep)
			}
			r = e.strConcat(r, el.(StrV))
		}
		return r
	}
	// strconv
	I["strconv.Itoa"] = func(e *Exec, fn *ssa.Function, a []Value, c *Frame) Value {
		t := a[0].(*Term)
		if t.Const {
			return StrV{s: strconv.Itoa(int(sext(t.U, 64)))}
		}
		return StrV{opq: &opaqueStr{parts: []opaquePart{{kind: 1, dec: t}}}}
	}
	I["strconv.FormatInt"] = func(e *Exec, fn *ssa.Function, a []Value, c *Frame) Value {
		t := a[0].(*Term)
		base := argInt(e, a[1], "FormatInt")
		if t.Const {
			return StrV{s: strconv.FormatInt(sext(t.U, 64), base)}
		}
		if base == 10 {
			return StrV{opq: &opaqueStr{parts: []opaquePart{{kind: 1, dec: t}}}}
		}
		return StrV{opq: &opaqueStr{parts: []opaquePart{{kind: 3}}}}
	}
	I["strconv.FormatUint"] = func(e *Exec, fn *ssa.Function, a []Value, c *Frame) Value {
		t := a[0].(*Term)
		base := argInt(e, a[1], "FormatUint")
		if t.Const {
			return StrV{s: strconv.FormatUint(t.U, base)}
		}
		if base == 10 {
			return StrV{opq: &opaqueStr{parts: []opaquePart{{kind: 1, dec: t, uns: true}}}}
		}
		return StrV{opq: &opaqueStr{parts: []opaquePart{{kind: 3}}}}
	}
	I["strconv.FormatFloat"] = func(e *Exec, fn *ssa.Function, a []Value, c *Frame) Value {
		t := a[0].(*Term)
		if t.Const && a[1].(*Term).Const {
			return StrV{s: strconv.FormatFloat(t.F, byte(a[1].(*Term).U), argInt(e, a[2], "FormatFloat"), argInt(e, a[3], "FormatFloat"))}
		}
		return e.formatFloatSym(t, a)
	}
	I["strconv.FormatBool"] = func(e *Exec, fn *ssa.Function, a []Value, c *Frame) Value {
		t := a[0].(*Term)
		if t.Const {
			return StrV{s: strconv.FormatBool(t.U == 1)}
		}
		if e.Branch(t) {
			return StrV{s: "true"}
		}
		return StrV{s: "false"}
	}
	I["strconv.Quote"] = func(e *Exec, fn *ssa.Function, a []Value, c *Frame) Value {
		x := a[0].(StrV)
		if x.IsConcrete() {
			return StrV{s: strconv.Quote(x.Concrete())}
		}
		return StrV{opq: &opaqueStr{parts: []opaquePart{{kind: 3}}}}
	}
	perr := func(e *Exec, err error) Value {
		if err == nil {
			return IfaceV{}
		}
		return e.mkError(err.Error())
	}
	I["strconv.Atoi"] = func(e *Exec, fn *ssa.Function, a []Value, c *Frame) Value {
		x := a[0].(StrV)
		if x.IsConcrete() {
			n, err := strconv.Atoi(x.Concrete())
			return TupleV{e.tt.BVConst(uint64(n), 64), perr(e, err)}
		}
		return e.strModel(fn, "strconv.Atoi", a)
	}
	I["strconv.ParseInt"] = func(e *Exec, fn *ssa.Function, a []Value, c *Frame) Value {
		x := a[0].(StrV)
		if x.IsConcrete() {
			n, err := strconv.ParseInt(x.Concrete(), argInt(e, a[1], "ParseInt"), argInt(e, a[2], "ParseInt"))
			return TupleV{e.tt.BVConst(uint64(n), 64), perr(e, err)}
		}
		return e.strModel(fn, "strconv.ParseInt", a)
	}
	I["strconv.ParseUint"] = func(e *Exec, fn *ssa.Function, a []Value, c *Frame) Value {
		x := a[0].(StrV)
		if x.IsConcrete() {
			n, err := strconv.ParseUint(x.Concrete(), argInt(e, a[1], "ParseUint"), argInt(e, a[2], "ParseUint"))
			return TupleV{e.tt.BVConst(n, 64), perr(e, err)}
		}
		return e.strModel(fn, "strconv.ParseUint", a)
	}
	I["strconv.ParseFloat"] = func(e *Exec, fn *ssa.Function, a []Value, c *Frame) Value {
		x := a[0].(StrV)
		if x.IsConcrete() {
			n, err := strconv.ParseFloat(x.Concrete(), argInt(e, a[1], "ParseFloat"))
			return TupleV{e.tt.FPConst(n, FP64Sort), perr(e, err)}
		}
		return e.strModel(fn, "strconv.ParseFloat", a)
	}
	I["strconv.ParseBool"] = func(e *Exec, fn *ssa.Function, a []Value, c *Frame) Value {
		x := a[0].(StrV)
		if x.IsConcrete() {
			n, err := strconv.ParseBool(x.Concrete())
			return TupleV{e.tt.Bool(n), perr(e, err)}
		}
		return e.strModel(fn, "strconv.ParseBool", a)
	}
	// unicode on concrete runes
	u1 := func(name string, f func(rune) bool) {
		I[name] = func(e *Exec, fn *ssa.Function, a []Value, c *Frame) Value {
			t := a[0].(*Term)
			if t.Const {
				return e.tt.Bool(f(rune(sext(t.U, 32))))
			}
			return e.unicodeModel(name, t)
		}
	}
	u1("unicode.IsLetter", unicode.IsLetter)
	u1("unicode.IsDigit", unicode.IsDigit)
	u1("unicode.IsSpace", unicode.IsSpace)
	u1("unicode.IsUpper", unicode.IsUpper)
	u1("unicode.IsLower", unicode.IsLower)
	u1("unicode.IsPunct", unicode.IsPunct)
	u1("unicode.IsNumber", unicode.IsNumber)
	u1("unicode.IsControl", unicode.IsControl)
	u1("unicode.IsPrint", unicode.IsPrint)
	for _, nm := range []string{"unicode.ToUpper", "unicode.ToLower"} {
		nm := nm
		I[nm] = func(e *Exec, fn *ssa.Function, a []Value, c *Frame) Value {
			t := a[0].(*Term)
			tt := e.tt
			if t.Const {
				r := rune(sext(t.U, 32))
				if nm == "unicode.ToUpper" {
					return tt.BVConst(uint64(unicode.ToUpper(r)), 32)
				}
				return tt.BVConst(uint64(unicode.ToLower(r)), 32)
			}
			if !e.Branch(tt.ULt(t, tt.BVConst(0x80, 32))) {
				panic(pathEnd{"cut", "non-ASCII symbolic rune in " + nm})
			}
			if nm == "unicode.ToUpper" {
				isl := tt.And(tt.ULe(tt.BVConst('a', 32), t), tt.ULe(t, tt.BVConst('z', 32)))
				return tt.Ite(isl, tt.Sub(t, tt.BVConst(32, 32)), t)
			}
			isu := tt.And(tt.ULe(tt.BVConst('A', 32), t), tt.ULe(t, tt.BVConst('Z', 32)))
			return tt.Ite(isu, tt.Add(t, tt.BVConst(32, 32)), t)
		}
	}
	// math
	m1 := func(name string, f func(float64) float64, sym func(e *Exec, t *Term) Value) {
		I[name] = func(e *Exec, fn *ssa.Function, a []Value, c *Frame) Value {
			t := a[0].(*Term)
			if t.Const {
				return e.tt.FPConst(f(t.F), FP64Sort)
			}
			if sym == nil {
				e.unsupported(name + " on symbolic float")
			}
			return sym(e, t)
		}
	}
	m1("math.Abs", math.Abs, func(e *Exec, t *Term) Value { return e.tt.FAbs(t) })
	m1("math.Floor", math.Floor, func(e *Exec, t *Term) Value { return e.tt.FRound(t, 3) })
	m1("math.Ceil", math.Ceil, func(e *Exec, t *Term) Value { return e.tt.FRound(t, 2) })
	m1("math.Trunc", math.Trunc, func(e *Exec, t *Term) Value { return e.tt.FRound(t, 1) })
	m1("math.RoundToEven", math.RoundToEven, func(e *Exec, t *Term) Value { return e.tt.FRound(t, 0) })
	m1("math.Sqrt", math.Sqrt, func(e *Exec, t *Term) Value { return e.tt.FSqrt(t) })
	m1("math.Round", math.Round, func(e *Exec, t *Term) Value {
		// round half away from zero: trunc(x + copysign(0.5, x)) is inexact near 2^52; use the exact form
		tt := e.tt
		tr := tt.FRound(t, 1)
		diff := tt.FAbs(tt.FBin("fp.sub", t, tr))
		half := tt.FPConst(0.5, FP64Sort)
		one := tt.FPConst(1, FP64Sort)
		neg := tt.FCmp("fp.lt", t, tt.FPConst(0, FP64Sort))
		adj := tt.Ite(neg, tt.FBin("fp.sub", tr, one), tt.FBin("fp.add", tr, one))
		return tt.Ite(tt.FCmp("fp.leq", half, diff), adj, tr)
	})
	for _, nm := range []string{"Sin", "Cos", "Tan", "Asin", "Acos", "Atan", "Sinh", "Cosh", "Tanh", "Exp", "Exp2", "Log", "Log10", "Log2", "Log1p", "Cbrt", "Gamma", "Expm1"} {
		nm := nm
		var f func(float64) float64
		switch nm {
		case "Sin":
			f = math.Sin
		case "Cos":
			f = math.Cos
		case "Tan":
			f = math.Tan
		case "Asin":
			f = math.Asin
		case "Acos":
			f = math.Acos
		case "Atan":
			f = math.Atan
		case "Sinh":
			f = math.Sinh
		case "Cosh":
			f = math.Cosh
		case "Tanh":
			f = math.Tanh
		case "Exp":
			f = math.Exp
		case "Exp2":
			f = math.Exp2
		case "Log":
			f = math.Log
		case "Log10":
			f = math.Log10
		case "Log2":
			f = math.Log2
		case "Log1p":
			f = math.Log1p
		case "Cbrt":
			f = math.Cbrt
		case "Gamma":
			f = math.Gamma
		case "Expm1":
			f = math.Expm1
		}
		m1("math."+nm, f, nil)
	}
	I["math.IsNaN"] = func(e *Exec, fn *ssa.Function, a []Value, c *Frame) Value { return e.tt.FIsNaN(a[0].(*Term)) }
	I["math.IsInf"] = func(e *Exec, fn *ssa.Function, a []Value, c *Frame) Value {
		tt := e.tt
		t := a[0].(*Term)
		sign := a[1].(*Term)
		if !sign.Const {
			e.unsupported("math.IsInf with symbolic sign")
		}
		s := sext(sign.U, 64)
		inf := tt.FIsInf(t)
		zero := tt.FPConst(0, FP64Sort)
		switch {
		case s > 0:
			return tt.And(inf, tt.FCmp("fp.lt", zero, t))
		case s < 0:
			return tt.And(inf, tt.FCmp("fp.lt", t, zero))
		}
		return inf
	}
	I["math.Inf"] = func(e *Exec, fn *ssa.Function, a []Value, c *Frame) Value {
		return e.tt.FPConst(math.Inf(argInt(e, a[0], "math.Inf")), FP64Sort)
	}
	I["math.NaN"] = func(e *Exec, fn *ssa.Function, a []Value, c *Frame) Value { return e.tt.FPConst(math.NaN(), FP64Sort) }
	I["math.Float64bits"] = func(e *Exec, fn *ssa.Function, a []Value, c *Frame) Value {
		t := a[0].(*Term)
		if t.Const {
			return e.tt.BVConst(math.Float64bits(t.F), 64)
		}
		// fresh bit-vector constrained to denote t (NaN payloads are not distinguished)
		b := e.freshVar(fmt.Sprintf("fbits!%d", len(e.pathAll)), BV(64))
		e.Assume(e.tt.Eq(e.tt.FPFromBits(b, FP64Sort), t))
		return b
	}
	I["math.Float32frombits"] = func(e *Exec, fn *ssa.Function, a []Value, c *Frame) Value {
		return e.tt.FPFromBits(a[0].(*Term), FP32Sort)
	}
	I["math.Float32bits"] = func(e *Exec, fn *ssa.Function, a []Value, c *Frame) Value {
		t := a[0].(*Term)
		if t.Const {
			return e.tt.BVConst(uint64(math.Float32bits(float32(t.F))), 32)
		}
		b := e.freshVar(fmt.Sprintf("f32bits!%d", len(e.pathAll)), BV(32))
		e.Assume(e.tt.Eq(e.tt.FPFromBits(b, FP32Sort), t))
		return b
	}
	I["math.Float64frombits"] = func(e *Exec, fn *ssa.Function, a []Value, c *Frame) Value {
		return e.tt.FPFromBits(a[0].(*Term), FP64Sort)
	}
	m2 := func(name string, f func(a, b float64) float64) {
		I[name] = func(e *Exec, fn *ssa.Function, a []Value, c *Frame) Value {
			x, y := a[0].(*Term), a[1].(*Term)
			if x.Const && y.Const {
				return e.tt.FPConst(f(x.F, y.F), FP64Sort)
			}
			return e.math2Model(name, x, y)
		}
	}
	m2("math.Pow", math.Pow)
	m2("math.Mod", math.Mod)
	m2("math.Max", math.Max)
	m2("math.Min", math.Min)
	m2("math.Atan2", math.Atan2)
	m2("math.Hypot", math.Hypot)
	m2("math.Remainder", math.Remainder)
	m2("math.Copysign", math.Copysign)
	I["math.Signbit"] = func(e *Exec, fn *ssa.Function, a []Value, c *Frame) Value {
		t := a[0].(*Term)
		if t.Const {
			return e.tt.Bool(math.Signbit(t.F))
		}
		e.unsupported("math.Signbit on symbolic float")
		return nil
	}
}

func (e *Exec) floorDivConst(ns *Term, d int64) *Term {
	// Go's Time.UnixMilli etc. floor for negative times because they work from seconds+nanoseconds;
	// model: floor division.
	tt := e.tt
	dc := tt.BVConst(uint64(d), 64)
	q := tt.SDiv(ns, dc)
	r := tt.SRem(ns, dc)
	neg := tt.SLt(r, tt.BVConst(0, 64))
	return tt.Ite(neg, tt.Sub(q, tt.BVConst(1, 64)), q)
}

func (e *Exec) fromNative(v interface{}) Value {
	switch x := v.(type) {
	case bool:
		return e.tt.Bool(x)
	case int:
		return e.tt.BVConst(uint64(x), 64)
	case string:
		return StrV{s: x}
	case []string:
		vals := make([]Value, len(x))
		for i, s := range x {
			vals[i] = StrV{s: s}
		}
		if x == nil {
			return SliceV{}
		}
		return e.sliceFrom(types.Typ[types.String], vals)
	case float64:
		return e.tt.FPConst(x, FP64Sort)
	}
	e.unsupported(fmt.Sprintf("fromNative %T", v))
	return nil
}

func (e *Exec) math2Model(name string, x, y *Term) Value {
	tt := e.tt
	if name == "math.Pow" && y.Const && y.F == 2 {
		// Pow(x, 2): mantissa squared and rescaled by a power of two = the correctly rounded product
		return tt.FBin("fp.mul", x, x)
	}
	switch name {
	case "math.Max", "math.Min":
		// Go: NaN if either is NaN; +Inf/-Inf rules follow from comparison; ±0 ordering
		nan := tt.Or(tt.FIsNaN(x), tt.FIsNaN(y))
		var pick *Term
		if name == "math.Max" {
			pick = tt.Ite(tt.FCmp("fp.lt", x, y), y, x)
		} else {
			pick = tt.Ite(tt.FCmp("fp.lt", y, x), y, x)
		}
		// signed zeros: Max(+0,-0)=+0, Min(+0,-0)=-0; not distinguished by fp.eq-based callers; flag if both zero
		return tt.Ite(nan, tt.FPConst(math.NaN(), FP64Sort), pick)
	}
	e.unsupported(name + " on symbolic floats")
	return nil
}

func (e *Exec) unicodeModel(name string, t *Term) Value {
	tt := e.tt
	if !e.Branch(tt.ULt(t, tt.BVConst(0x80, 32))) {
		panic(pathEnd{"cut", "non-ASCII symbolic rune in " + name})
	}
	rng := func(lo, hi byte) *Term {
		return tt.And(tt.ULe(tt.BVConst(uint64(lo), 32), t), tt.ULe(t, tt.BVConst(uint64(hi), 32)))
	}
	eq := func(b byte) *Term { return tt.Eq(t, tt.BVConst(uint64(b), 32)) }
	switch name {
	case "unicode.IsLetter":
		return tt.Or(rng('a', 'z'), rng('A', 'Z'))
	case "unicode.IsDigit", "unicode.IsNumber":
		return rng('0', '9')
	case "unicode.IsUpper":
		return rng('A', 'Z')
	case "unicode.IsLower":
		return rng('a', 'z')
	case "unicode.IsSpace":
		r := tt.Or(rng('\t', '\r'), eq(' '))
		return r
	case "unicode.IsControl":
		return tt.Or(tt.ULt(t, tt.BVConst(0x20, 32)), eq(0x7f))
	case "unicode.IsPrint":
		return rng(0x20, 0x7e)
	case "unicode.IsPunct":
		r := tt.Bool(false)
		for b := 0; b < 0x80; b++ {
			if unicode.IsPunct(rune(b)) {
				r = tt.Or(r, eq(byte(b)))
			}
		}
		return r
	}
	e.unsupported(name + " on symbolic rune")
	return nil
}

func i2u(v int64) uint64 { return uint64(v) }

func floatBits(t *Term) uint64 {
	if t.S.K == SFP32 {
		return uint64(math.Float32bits(float32(t.F)))
	}
	return math.Float64bits(t.F)
}
