package main

import (
	"encoding/json"
	"fmt"
	"os"
	"os/exec"
	"path/filepath"
	"regexp"
	"sort"
	"strconv"
	"strings"
	"sync"
	"time"
)

type JobDef struct {
	Pkg             string             `json:"pkg"`
	Entry           string             `json:"entry"`
	Params          map[string]int64   `json:"params"`
	Grid            map[string][]int64 `json:"grid"`
	MaxSteps        int64              `json:"max_steps"`
	MaxDepth        int                `json:"max_depth"`
	MaxPaths        int                `json:"max_paths"`
	TimeoutS        float64            `json:"timeout_s"`
	Solver          string             `json:"solver"`
	SolverTimeoutMs int                `json:"solver_timeout_ms"`
	IncTimeoutMs    int                `json:"inc_timeout_ms"`
	Samples         int                `json:"samples"`
	Covers          []string           `json:"covers"` // cover points this job must reach
}

type CheckSpec struct {
	Property    string              `json:"property"`
	Level       string              `json:"level"`
	Harness     []HarnessRef        `json:"harness"`
	InitPkgs    []string            `json:"init_pkgs"`
	Jobs        map[string][]JobDef `json:"jobs"`
	Covers      []string            `json:"covers_required"`
	AllowedCuts []string            `json:"allowed_cuts"`
	Explanation string              `json:"explanation"`
	Assumptions []string            `json:"assumptions"`
	Bounds      map[string]string   `json:"bounds"`
	Stubs       []string            `json:"stubs"`
}

type KnownFinding struct {
	ID       string `json:"id"`
	Property string `json:"property"`
	Status   string `json:"status"` // "open" | "fixed: <commit>"
	What     string `json:"what"`
}

func loadKnown(root string) ([]KnownFinding, map[string]bool) {
	var kfs []KnownFinding
	b, err := os.ReadFile(filepath.Join(root, "known_findings.json"))
	if err == nil {
		var doc struct {
			Findings []KnownFinding `json:"findings"`
		}
		if json.Unmarshal(b, &doc) == nil {
			kfs = doc.Findings
		}
	}
	open := map[string]bool{}
	for _, k := range kfs {
		if k.Status == "open" {
			open[k.ID] = true
		}
	}
	return kfs, open
}

func expandJobs(defs []JobDef) []JobDef {
	var out []JobDef
	for _, d := range defs {
		if len(d.Grid) == 0 {
			out = append(out, d)
			continue
		}
		keys := make([]string, 0, len(d.Grid))
		for k := range d.Grid {
			keys = append(keys, k)
		}
		sort.Strings(keys)
		var rec func(i int, cur map[string]int64)
		rec = func(i int, cur map[string]int64) {
			if i == len(keys) {
				nd := d
				nd.Grid = nil
				nd.Params = map[string]int64{}
				for k, v := range d.Params {
					nd.Params[k] = v
				}
				for k, v := range cur {
					nd.Params[k] = v
				}
				out = append(out, nd)
				return
			}
			for _, v := range d.Grid[keys[i]] {
				cur[keys[i]] = v
				rec(i+1, cur)
			}
			delete(cur, keys[i])
		}
		rec(0, map[string]int64{})
	}
	return out
}

type replayOutcome struct {
	fails     []string
	trace     string
	exhausted bool
	ran       bool
}

// nativeReplay runs the vectors against the natively compiled harness (go test -overlay).
func nativeReplay(P *Program, hs []HarnessRef, pkgDir string, vecs []*Violation, keepDir string) (map[int]replayOutcome, string, error) {
	out := map[int]replayOutcome{}
	if len(vecs) == 0 {
		return out, "", nil
	}
	tmp, err := os.MkdirTemp("", "gosym-replay-")
	if err != nil {
		return nil, "", err
	}
	defer os.RemoveAll(tmp)
	vdir := filepath.Join(tmp, "vec")
	os.MkdirAll(vdir, 0o755)
	for i, v := range vecs {
		writeVector(filepath.Join(vdir, fmt.Sprintf("%05d.json", i)), v)
	}
	entries := P.harnessEntries(repoMod + "/" + pkgDir)
	pkgName := P.pkgs[repoMod+"/"+pkgDir].Pkg.Name()
	var tb strings.Builder
	tb.WriteString("//go:build verif\n\npackage " + pkgName + "\n\nimport (\n\t\"testing\"\n\t\"github.com/rulego/streamsql/internal/zzverif\"\n)\n\n")
	tb.WriteString("func TestVerifReplay(t *testing.T) {\n\tzzverif.RunReplay(map[string]func(){\n")
	for _, en := range entries {
		tb.WriteString(fmt.Sprintf("\t\t%q: %s,\n", en, en))
	}
	tb.WriteString("\t})\n}\n")
	testFile := filepath.Join(tmp, "zz_verif_replay_test.go")
	os.WriteFile(testFile, []byte(tb.String()), 0o644)
	ov := overlayFiles(hs)
	ov[filepath.Join(repoDir, pkgDir, "zz_verif_replay_test.go")] = testFile
	ovj, _ := json.Marshal(map[string]interface{}{"Replace": ov})
	ovFile := filepath.Join(tmp, "overlay.json")
	os.WriteFile(ovFile, ovj, 0o644)
	// build the test binary once, then run every vector in its own process (a harness may touch
	// process-wide state such as the function registry: vectors must not influence each other)
	bin := filepath.Join(tmp, "replay.test")
	build := exec.Command("go", "test", "-c", "-tags", "verif", "-vet=off", "-overlay", ovFile, "-o", bin, "./"+pkgDir)
	build.Dir = repoDir
	build.Env = append(os.Environ(), "GOFLAGS=-mod=mod", "GOPROXY=off", "GOSUMDB=off", "GOTOOLCHAIN=local")
	if bout, berr := build.CombinedOutput(); berr != nil {
		return out, string(bout), fmt.Errorf("native replay build failed: %v", berr)
	}
	var textB strings.Builder
	type res struct {
		i   int
		out string
	}
	resCh := make(chan res, len(vecs))
	sem := make(chan struct{}, 8)
	for i := range vecs {
		go func(i int) {
			sem <- struct{}{}
			defer func() { <-sem }()
			one := filepath.Join(tmp, fmt.Sprintf("one%05d", i))
			os.MkdirAll(one, 0o755)
			src := filepath.Join(vdir, fmt.Sprintf("%05d.json", i))
			b, _ := os.ReadFile(src)
			os.WriteFile(filepath.Join(one, fmt.Sprintf("%05d.json", i)), b, 0o644)
			cmd := exec.Command(bin, "-test.run", "^TestVerifReplay$", "-test.v", "-test.timeout", "120s")
			cmd.Dir = filepath.Join(repoDir, pkgDir)
			cmd.Env = append(os.Environ(), "VERIF_REPLAY_DIR="+one)
			o, _ := cmd.CombinedOutput()
			resCh <- res{i, string(o)}
		}(i)
	}
	for range vecs {
		r := <-resCh
		textB.WriteString(r.out)
	}
	text := textB.String()
	reRes := regexp.MustCompile(`VERIF-RESULT file=(\d+)\.json exhausted=(\w+) fails=("(?:[^"\\]|\\.)*")`)
	reTr := regexp.MustCompile(`VERIF-TRACE file=(\d+)\.json (.*)`)
	for _, m := range reRes.FindAllStringSubmatch(text, -1) {
		i, _ := strconv.Atoi(m[1])
		fs, _ := strconv.Unquote(m[3])
		o := out[i]
		o.ran = true
		o.exhausted = m[2] == "true"
		if fs != "" {
			o.fails = strings.Split(fs, "|")
		}
		out[i] = o
	}
	for _, m := range reTr.FindAllStringSubmatch(text, -1) {
		i, _ := strconv.Atoi(m[1])
		o := out[i]
		o.trace = strings.TrimSpace(m[2])
		out[i] = o
	}
	if keepDir != "" {
		os.MkdirAll(keepDir, 0o755)
	}
	if err != nil && len(out) == 0 {
		return out, text, fmt.Errorf("native replay failed: %v", err)
	}
	return out, text, nil
}

var knownOpenIDs []string

func writeVector(path string, v *Violation) {
	doc := map[string]interface{}{
		"known_open": knownOpenIDs,
		"entry":      v.Entry,
		"params":     v.Params,
		"values":     v.Values,
		"choices":    v.Choices,
		"label":      v.Label,
	}
	b, _ := json.MarshalIndent(doc, "", " ")
	os.WriteFile(path, b, 0o644)
}

func hasFail(fails []string, label string) bool {
	for _, f := range fails {
		if f == label {
			return true
		}
		if strings.HasPrefix(label, "panic: ") && strings.HasPrefix(f, "panic: ") {
			return true
		}
	}
	return false
}

// RunCheck runs one property check and returns the exit code.
func RunCheck(root, property, tier string, seed int64, jobsN int, only string, verbose bool) int {
	t0 := time.Now()
	specB, err := os.ReadFile(filepath.Join(root, "checks", property+".json"))
	if err != nil {
		fmt.Printf("INCONCLUSIVE property=%s reason=%v\n", property, err)
		return 2
	}
	var spec CheckSpec
	if err := json.Unmarshal(specB, &spec); err != nil {
		fmt.Printf("INCONCLUSIVE property=%s reason=bad spec: %v\n", property, err)
		return 2
	}
	kfs, kfOpen := loadKnown(root)
	knownOpenIDs = nil
	for id := range kfOpen {
		knownOpenIDs = append(knownOpenIDs, id)
	}
	sort.Strings(knownOpenIDs)
	P, err := LoadProgram(spec.Harness)
	var stale []string
	for tries := 0; err != nil && tries < 4; tries++ {
		// A harness file may no longer compile against an edited tree (it uses package internals).
		// Drop the files named in the errors and go on with the remaining harnesses; the dropped
		// ones are reported as inconclusive, never as success.
		dropped := false
		msg := err.Error()
		var nh []HarnessRef
		for _, h := range spec.Harness {
			var keep []string
			for _, f := range h.Files {
				if strings.Contains(msg, "zz_verif_"+f) {
					stale = append(stale, fmt.Sprintf("harness %s/%s does not compile against this tree: %s", h.Pkg, f, firstLineWith(msg, "zz_verif_"+f)))
					dropped = true
				} else {
					keep = append(keep, f)
				}
			}
			if len(keep) > 0 {
				nh = append(nh, HarnessRef{Pkg: h.Pkg, Files: keep})
			}
		}
		if !dropped {
			break
		}
		spec.Harness = nh
		P, err = LoadProgram(spec.Harness)
	}
	if err != nil {
		fmt.Printf("INCONCLUSIVE property=%s reason=%v\n", property, err)
		writeEvidence(root, &spec, tier, seed, nil, nil, time.Since(t0).Seconds(), 0, []string{"load failed: " + err.Error()}, nil)
		return 2
	}
	loadS := time.Since(t0).Seconds()
	defs := expandJobs(spec.Jobs[tier])
	if len(defs) == 0 {
		fmt.Printf("INCONCLUSIVE property=%s reason=no jobs for tier %s\n", property, tier)
		return 2
	}
	if only != "" {
		var f []JobDef
		for _, d := range defs {
			if d.Entry == only {
				f = append(f, d)
			}
		}
		defs = f
	}
	results := make([]*JobResult, len(defs))
	sem := make(chan struct{}, jobsN)
	var wg sync.WaitGroup
	for i, d := range defs {
		wg.Add(1)
		go func(i int, d JobDef) {
			defer wg.Done()
			sem <- struct{}{}
			defer func() { <-sem }()
			js := JobSpec{Entry: d.Entry, Pkg: repoMod + "/" + d.Pkg, Params: d.Params, MaxSteps: d.MaxSteps, MaxDepth: d.MaxDepth,
				MaxPaths: d.MaxPaths, TimeoutS: d.TimeoutS, Solver: d.Solver, SolverTimeoutMs: d.SolverTimeoutMs, IncTimeoutMs: d.IncTimeoutMs, InitPkgs: spec.InitPkgs, Samples: d.Samples}
			if js.Samples == 0 {
				js.Samples = 4
			}
			if js.TimeoutS == 0 {
				js.TimeoutS = 900 // never run blind: an unfinished job is reported as inconclusive
			}
			results[i] = RunJob(P, js, kfOpen)
			if verbose {
				r := results[i]
				fmt.Fprintf(os.Stderr, "job %s %v: paths=%d ends=%v obl=%d disch=%d viol=%d known=%d incon=%v q=%d wall=%.1fs err=%s\n", d.Entry, d.Params, r.Paths, r.PathsByEnd, r.Obligations, r.Discharged, len(r.Violations), len(r.Known), r.Incon, r.Solver.Queries, r.WallS, r.Err)
			}
		}(i, d)
	}
	wg.Wait()

	// ---- native replay per package ----
	var incon []string
	incon = append(incon, stale...)
	type tagged struct {
		v    *Violation
		kind string // "viol", "known", "sample"
		job  int
	}
	byPkg := map[string][]tagged{}
	for i, r := range results {
		if r.Err != "" {
			incon = append(incon, fmt.Sprintf("%s: %s", r.Entry, r.Err))
		}
		for k, n := range r.Incon {
			incon = append(incon, fmt.Sprintf("%s: %s (x%d)", r.Entry, k, n))
		}
		for c, n := range r.Cuts {
			ok := false
			for _, a := range spec.AllowedCuts {
				if strings.Contains(c, a) {
					ok = true
				}
			}
			if !ok {
				incon = append(incon, fmt.Sprintf("%s: path cut not listed as allowed: %s (x%d)", r.Entry, c, n))
			}
		}
		for _, c := range defs[i].Covers {
			if r.Covers[c] == 0 {
				incon = append(incon, fmt.Sprintf("%s %v: cover point %q not reached (vacuity)", r.Entry, r.Params, c))
			}
		}
		pk := defs[i].Pkg
		for _, v := range r.Violations {
			byPkg[pk] = append(byPkg[pk], tagged{v, "viol", i})
		}
		for _, v := range r.Known {
			byPkg[pk] = append(byPkg[pk], tagged{v, "known", i})
		}
		for _, v := range r.Samples {
			byPkg[pk] = append(byPkg[pk], tagged{v, "sample", i})
		}
	}
	for _, c := range spec.Covers {
		found := false
		for _, r := range results {
			if r.Covers[c] > 0 {
				found = true
			}
		}
		if !found {
			incon = append(incon, fmt.Sprintf("cover point %q not reached by any job (vacuity)", c))
		}
	}
	replayDir := filepath.Join(root, "replay", property)
	os.RemoveAll(replayDir)
	confirmed := 0
	knownSeen := map[string]string{}
	var violLines []string
	tracesOK := 0
	replayed := 0
	var sampleOut []interface{}
	for pk, ts := range byPkg {
		// cap the number of samples replayed
		var vecs []*Violation
		var sel []tagged
		ns := 0
		for _, t := range ts {
			if t.kind == "sample" {
				ns++
				if ns > 60 {
					continue
				}
			}
			vecs = append(vecs, t.v)
			sel = append(sel, t)
		}
		outc, text, err := nativeReplay(P, spec.Harness, pk, vecs, "")
		if err != nil {
			incon = append(incon, fmt.Sprintf("native replay in %s failed: %v: %s", pk, err, lastLines(text, 15)))
			continue
		}
		for i, t := range sel {
			o := outc[i]
			replayed++
			if !o.ran {
				incon = append(incon, fmt.Sprintf("replay of %s vector %d did not run: %s", t.kind, i, lastLines(text, 8)))
				continue
			}
			switch t.kind {
			case "sample":
				if len(o.fails) > 0 {
					incon = append(incon, fmt.Sprintf("differential mismatch: native run of a passing path of %s fails %v", t.v.Entry, o.fails))
					p := filepath.Join(replayDir, fmt.Sprintf("mismatch-%s-%d.json", t.v.Entry, i))
					os.MkdirAll(replayDir, 0o755)
					writeVector(p, t.v)
				} else if o.trace != strings.TrimSuffix(t.v.Known, ";") {
					incon = append(incon, fmt.Sprintf("differential mismatch in %s: interpreter trace %q vs native %q", t.v.Entry, t.v.Known, o.trace))
					p := filepath.Join(replayDir, fmt.Sprintf("mismatch-%s-%d.json", t.v.Entry, i))
					os.MkdirAll(replayDir, 0o755)
					writeVector(p, t.v)
				} else {
					tracesOK++
					if len(sampleOut) < 6 {
						sampleOut = append(sampleOut, map[string]interface{}{"entry": t.v.Entry, "params": t.v.Params, "values": t.v.Values, "choices": t.v.Choices, "trace": o.trace, "native": "agrees"})
					}
				}
			case "viol":
				os.MkdirAll(replayDir, 0o755)
				p := filepath.Join(replayDir, fmt.Sprintf("%s-%d.json", t.v.Entry, i))
				writeVector(p, t.v)
				if hasFail(o.fails, t.v.Label) {
					confirmed++
					violLines = append(violLines, fmt.Sprintf("VIOLATION property=%s replay=%s label=%q entry=%s params=%v", property, p, t.v.Label, t.v.Entry, t.v.Params))
				} else {
					incon = append(incon, fmt.Sprintf("counterexample for %q (%s) did not reproduce natively (native fails=%v): engine/stub error suspected; vector %s", t.v.Label, t.v.Entry, o.fails, p))
				}
			case "known":
				if hasFail(o.fails, t.v.Label) {
					knownSeen[t.v.Known] = t.v.Label
				} else {
					incon = append(incon, fmt.Sprintf("known finding %s: model did not reproduce natively (native fails=%v)", t.v.Known, o.fails))
				}
			}
		}
	}
	// known findings listed for this property must print a line when seen
	for _, k := range kfs {
		if k.Property != property || k.Status != "open" {
			continue
		}
		if _, ok := knownSeen[k.ID]; ok {
			fmt.Printf("KNOWN-FINDING: property=%s %s [%s]\n", property, k.What, k.ID)
		}
	}
	for _, l := range violLines {
		fmt.Println(l)
	}
	sort.Strings(incon)
	incon = dedup(incon)
	for _, l := range incon {
		fmt.Printf("INCONCLUSIVE property=%s reason=%s\n", property, l)
	}
	wall := time.Since(t0).Seconds()
	writeEvidence(root, &spec, tier, seed, P, results, wall, loadS, incon, map[string]interface{}{
		"replayed": replayed, "traces_ok": tracesOK, "confirmed_violations": confirmed, "known_seen": knownSeen, "samples": sampleOut, "defs": defs,
	})
	// summary
	var paths, obl, dis, q int
	for _, r := range results {
		paths += r.Paths
		obl += r.Obligations
		dis += r.Discharged + r.DischargedModuloKnown
		q += r.Solver.Queries
	}
	fmt.Printf("SUMMARY property=%s tier=%s jobs=%d paths=%d obligations=%d discharged=%d solver_queries=%d native_replays=%d wall=%.1fs\n", property, tier, len(results), paths, obl, dis, q, replayed, wall)
	if confirmed > 0 {
		return 1
	}
	if len(incon) > 0 {
		return 2
	}
	return 0
}

func dedup(xs []string) []string {
	var out []string
	for i, x := range xs {
		if i == 0 || x != xs[i-1] {
			out = append(out, x)
		}
	}
	return out
}

func lastLines(s string, n int) string {
	ls := strings.Split(strings.TrimSpace(s), "\n")
	if len(ls) > n {
		ls = ls[len(ls)-n:]
	}
	return strings.Join(ls, " | ")
}

func writeEvidence(root string, spec *CheckSpec, tier string, seed int64, P *Program, results []*JobResult, wall, loadS float64, incon []string, extra map[string]interface{}) {
	cov := map[string]interface{}{}
	var paths, okPaths, obl, dis, triv, branches, states int
	var steps int64
	fns := map[string]bool{}
	var solver SolverStats
	covers := map[string]int{}
	cuts := map[string]int{}
	ends := map[string]int{}
	exhaustive := true
	var jobSumm []interface{}
	for _, r := range results {
		paths += r.Paths
		okPaths += r.PathsByEnd["ok"]
		obl += r.Obligations
		dis += r.Discharged + r.DischargedModuloKnown
		triv += r.TrivialObl
		branches += r.Branches
		steps += r.Steps
		for f := range r.Fns {
			fns[f] = true
		}
		solver.Queries += r.Solver.Queries
		solver.Sat += r.Solver.Sat
		solver.Unsat += r.Solver.Unsat
		solver.Unknown += r.Solver.Unknown
		solver.Errors += r.Solver.Errors
		solver.WallS += r.Solver.WallS
		solver.Skipped += r.Solver.Skipped
		solver.OneShot += r.Solver.OneShot
		solver.Probed += r.Solver.Probed
		solver.HardTimeouts += r.Solver.HardTimeouts
		if r.Solver.MaxS > solver.MaxS {
			solver.MaxS = r.Solver.MaxS
		}
		for c, n := range r.Covers {
			covers[c] += n
		}
		for c, n := range r.Cuts {
			cuts[c] += n
		}
		for c, n := range r.PathsByEnd {
			ends[c] += n
		}
		if !r.Exhausted {
			exhaustive = false
		}
		jobSumm = append(jobSumm, map[string]interface{}{"entry": r.Entry, "params": r.Params, "paths": r.Paths, "obligations": r.Obligations,
			"discharged": r.Discharged, "discharged_modulo_known": r.DischargedModuloKnown, "queries": r.Solver.Queries, "wall_s": round2(r.WallS), "path_space_exhausted": r.Exhausted, "max_decisions": r.MaxTrail})
	}
	states = paths + branches
	var repoFns []string
	for f := range fns {
		if strings.Contains(f, repoMod) && !strings.Contains(f, "zzverif") && !strings.Contains(f, ".Verif") && !strings.Contains(f, ".verif") {
			repoFns = append(repoFns, strings.ReplaceAll(f, repoMod+"/", ""))
		}
	}
	sort.Strings(repoFns)
	cov["evaluations"] = paths
	cov["distinct_nontrivial"] = okPaths
	cov["rule"] = "one evaluation = one symbolic path of a harness (a distinct vector of branch decisions over the real SSA, each covering every input value that satisfies its path condition); non-trivial = paths that ran to the end of the harness with a satisfiable path condition (infeasible, cut and aborted paths are not counted)"
	cov["explanation"] = spec.Explanation
	cov["obligations"] = obl
	cov["discharged"] = dis
	cov["obligations_trivially_true_after_folding"] = triv
	cov["states"] = states
	cov["transitions"] = branches
	cov["programs"] = len(results)
	cov["checker_cmd"] = "bin/gosym check -property " + spec.Property + " -tier " + tier
	cov["functions_encoded"] = repoFns
	if P != nil {
		cov["source_hashes"] = P.sourceHashes(fns)
	}
	cov["bounds"] = spec.Bounds
	cov["stubs"] = spec.Stubs
	cov["path_ends"] = ends
	cov["paths_cut"] = cuts
	cov["cover_points"] = covers
	cov["exhaustive"] = exhaustive && len(incon) == 0
	cov["path_space_exhausted_within_bounds"] = exhaustive
	cov["interpreter_steps"] = steps
	cov["solver"] = map[string]interface{}{"backend": "z3 5.1.0 (z3-new, one incremental process per job, push/pop); hard queries one-shot on z3 4.8.12, then cvc5 1.0", "queries": solver.Queries, "sat": solver.Sat, "unsat": solver.Unsat, "unknown": solver.Unknown, "errors": solver.Errors,
		"answered_by_model_evaluation": solver.Skipped, "one_shot_fallbacks": solver.OneShot, "unknown_resolved_by_concrete_probing": solver.Probed, "hard_timeouts": solver.HardTimeouts, "wall_s": round2(solver.WallS), "max_query_s": round2(solver.MaxS)}
	cov["load_and_ssa_build_s"] = round2(loadS)
	cov["jobs"] = jobSumm
	cov["inconclusive"] = incon
	cov["trusted_base"] = []string{"golang.org/x/tools/go/ssa v0.29.0 lowering", "gosym symbolic SSA interpreter (validated per run by native replay of sampled paths)", "z3 4.8.12", "environment stubs listed under stubs"}
	nviol := 0
	samples := []interface{}{}
	if extra != nil {
		cov["traces_validated_against_impl"] = extra["traces_ok"]
		cov["native_replays"] = extra["replayed"]
		cov["disagreements_checked"] = extra["replayed"]
		cov["known_findings_seen"] = extra["known_seen"]
		if s, ok := extra["samples"].([]interface{}); ok {
			samples = s
		}
		if c, ok := extra["confirmed_violations"].(int); ok {
			nviol = c
		}
	}
	if len(samples) == 0 {
		samples = append(samples, map[string]interface{}{"note": "no passing path was sampled on this run"})
	}
	cov["samples"] = samples
	if spec.Assumptions == nil {
		spec.Assumptions = []string{}
	}
	ev := map[string]interface{}{
		"property_id": spec.Property,
		"tier":        tier,
		"seed":        seed,
		"level":       spec.Level,
		"coverage":    cov,
		"assumptions": spec.Assumptions,
		"wall_s":      round2(wall),
		"violations":  nviol,
	}
	os.MkdirAll(filepath.Join(root, "evidence"), 0o755)
	b, _ := json.MarshalIndent(ev, "", " ")
	os.WriteFile(filepath.Join(root, "evidence", spec.Property+".json"), b, 0o644)
}

func round2(f float64) float64 { return float64(int(f*100+0.5)) / 100 }

// RunReplayOne replays one stored vector natively and prints the native result.
func RunReplayOne(root, property, file string) int {
	specB, err := os.ReadFile(filepath.Join(root, "checks", property+".json"))
	if err != nil {
		fmt.Println(err)
		return 2
	}
	var spec CheckSpec
	json.Unmarshal(specB, &spec)
	b, err := os.ReadFile(file)
	if err != nil {
		fmt.Println(err)
		return 2
	}
	var doc struct {
		Entry   string              `json:"entry"`
		Params  map[string]int64    `json:"params"`
		Values  map[string][]string `json:"values"`
		Choices []int               `json:"choices"`
		Label   string              `json:"label"`
	}
	json.Unmarshal(b, &doc)
	P, err := LoadProgram(spec.Harness)
	if err != nil {
		fmt.Println(err)
		return 2
	}
	pkgDir := ""
	for _, h := range spec.Harness {
		for _, en := range P.harnessEntries(repoMod + "/" + h.Pkg) {
			if en == doc.Entry {
				pkgDir = h.Pkg
			}
		}
	}
	v := &Violation{Label: doc.Label, Values: doc.Values, Choices: doc.Choices, Params: doc.Params, Entry: doc.Entry}
	// the same vector inside the interpreter (concrete run)
	_, kfOpen := loadKnown(root)
	for id := range kfOpen {
		knownOpenIDs = append(knownOpenIDs, id)
	}
	jr := RunJob(P, JobSpec{Entry: doc.Entry, Pkg: repoMod + "/" + pkgDir, Params: doc.Params, InitPkgs: spec.InitPkgs, Fixed: v, Samples: 1}, kfOpen)
	fmt.Printf("INTERPRETER: paths=%d ends=%v err=%s incon=%v\n", jr.Paths, jr.PathsByEnd, jr.Err, jr.Incon)
	for _, vv := range jr.Violations {
		fmt.Printf("INTERPRETER: assertion failed: %s\n", vv.Label)
	}
	for _, sv := range jr.Samples {
		fmt.Printf("INTERPRETER: trace %s\n", sv.Known)
	}
	out, text, err := nativeReplay(P, spec.Harness, pkgDir, []*Violation{v}, "")
	fmt.Println(text)
	if err != nil {
		return 2
	}
	if hasFail(out[0].fails, doc.Label) {
		fmt.Printf("VIOLATION property=%s replay=%s label=%q (reproduced natively)\n", property, file, doc.Label)
		return 1
	}
	fmt.Printf("not reproduced: native fails=%v\n", out[0].fails)
	return 0
}

func firstLineWith(s, sub string) string {
	for _, l := range strings.Split(s, "\n") {
		if strings.Contains(l, sub) {
			return l
		}
	}
	return ""
}
