package main

import (
	"flag"
	"fmt"
	"os"
	"runtime"
	"strconv"
)

func main() {
	if len(os.Args) < 2 {
		fmt.Println("usage: gosym check -property Cxx -tier quick|thorough")
		os.Exit(2)
	}
	switch os.Args[1] {
	case "check":
		fs := flag.NewFlagSet("check", flag.ExitOnError)
		prop := fs.String("property", "", "property id")
		tier := fs.String("tier", "", "quick|thorough")
		jobs := fs.Int("jobs", 0, "parallel jobs")
		only := fs.String("only", "", "run only this entry")
		verbose := fs.Bool("v", false, "verbose")
		fs.Parse(os.Args[2:])
		if *tier == "" {
			*tier = os.Getenv("VERIF_TIER")
		}
		if *tier == "" {
			*tier = "quick"
		}
		seed, _ := strconv.ParseInt(os.Getenv("VERIF_SEED"), 10, 64)
		n := *jobs
		if n == 0 {
			n = runtime.NumCPU()
		}
		os.Exit(RunCheck(verifRoot(), *prop, *tier, seed, n, *only, *verbose))
	}
	if os.Args[1] == "replay" {
		fs := flag.NewFlagSet("replay", flag.ExitOnError)
		prop := fs.String("property", "", "property id")
		file := fs.String("file", "", "vector file")
		fs.Parse(os.Args[2:])
		os.Exit(RunReplayOne(verifRoot(), *prop, *file))
	}
	fmt.Println("unknown command")
	os.Exit(2)
}
