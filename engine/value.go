package main

import (
	"fmt"
	"go/types"
	"math"
	"os"
	"strconv"
	"strings"

	"golang.org/x/tools/go/ssa"
)

// Value is one of:
//
//	*Term (bool, ints, floats), StrV, StructV, ArrayV, TupleV, PtrV, SliceV, MapV, ChanV,
//	IfaceV, *ClosureV, *ssa.Function, *ssa.Builtin, NilFunc, TimeV, NativeV
type Value interface{}

type StrV struct {
	s   string  // concrete content when sym == nil
	sym []*Term // symbolic bytes (BV8), len concrete
	opq *opaqueStr
}

// opaqueStr is the result of formatting symbolic data (fmt.Sprintf("%d", x), error messages).
// It can be stored, passed, concatenated and compared with an opaque string of the same shape;
// any other inspection ends the path as unsupported (never a silent default).
type opaqueStr struct {
	parts []opaquePart
}

type opaquePart struct {
	lit  string // literal text
	dec  *Term  // decimal rendering of a signed/unsigned integer term
	uns  bool
	sym  []*Term // symbolic bytes
	kind int     // 0 lit, 1 dec, 2 sym, 3 unknown
}

// curExec: the interpreter running on this goroutine's job (one job per process section); used only to
// attach a source position to the opaque-string diagnosis.
var opaqueWhere func() string

func opaqueInspect() {
	w := ""
	if opaqueWhere != nil && os.Getenv("GOSYM_DEBUG") != "" {
		w = opaqueWhere()
	}
	panic(pathEnd{"unsupported", "inspection of an opaque formatted string" + w})
}

type StructV []Value
type ArrayV []Value
type TupleV []Value

type Obj struct {
	id    int
	val   Value
	typ   types.Type
	tag   string
	epoch int // 0: created during the one-time init phase (restored after every path)
}

type PtrV struct {
	obj  *Obj
	path []int
}

type SliceV struct {
	arr *Obj // obj.val is ArrayV
	off int
	len int
	cap int
}

type MapData struct {
	keys  []Value
	vals  []Value
	index map[string]int // concrete-key fast index (string/int keys)
	ktype types.Type
	vtype types.Type
	dead  []bool
	n     int
}

type MapV struct{ obj *Obj } // obj.val is *MapData; nil map: obj == nil

type ChanData struct {
	buf    []Value
	cap    int
	closed bool
	etype  types.Type
	timer  bool // created by time.After/NewTimer/NewTicker
	ticker bool
}

type ChanV struct{ obj *Obj }

type IfaceV struct {
	t types.Type // nil => nil interface
	v Value
}

type ClosureV struct {
	fn   *ssa.Function
	free []Value
}

type NilFunc struct{}

type TimeV struct {
	zero bool
	ns   *Term // BV64 unix nanoseconds (when !zero)
}

type NativeV struct{ v interface{} }

// ReflV models reflect.Value
type ReflV struct {
	valid bool
	t     types.Type
	v     Value
}

func isTimeType(t types.Type) bool {
	n, ok := t.(*types.Named)
	if !ok {
		return false
	}
	o := n.Obj()
	return o.Pkg() != nil && o.Pkg().Path() == "time" && o.Name() == "Time"
}

func isNamed(t types.Type, pkg, name string) bool {
	if p, ok := t.(*types.Pointer); ok {
		t = p.Elem()
	}
	n, ok := t.(*types.Named)
	if !ok {
		return false
	}
	o := n.Obj()
	return o.Pkg() != nil && o.Pkg().Path() == pkg && o.Name() == name
}

func intWidth(b *types.Basic) (w int, signed bool, ok bool) {
	switch b.Kind() {
	case types.Int, types.Int64, types.UntypedInt:
		return 64, true, true
	case types.Int8:
		return 8, true, true
	case types.Int16:
		return 16, true, true
	case types.Int32, types.UntypedRune:
		return 32, true, true
	case types.Uint, types.Uint64, types.Uintptr:
		return 64, false, true
	case types.Uint8:
		return 8, false, true
	case types.Uint16:
		return 16, false, true
	case types.Uint32:
		return 32, false, true
	}
	return 0, false, false
}

func (e *Exec) zero(t types.Type) Value {
	if isTimeType(t) {
		return TimeV{zero: true}
	}
	if isNamed(t, "reflect", "Value") {
		if _, isPtr := t.(*types.Pointer); !isPtr {
			return ReflV{}
		}
	}
	switch u := t.Underlying().(type) {
	case *types.Basic:
		if w, _, ok := intWidth(u); ok {
			return e.tt.BVConst(0, w)
		}
		switch u.Kind() {
		case types.Bool, types.UntypedBool:
			return e.tt.Bool(false)
		case types.Float64, types.UntypedFloat:
			return e.tt.FPConst(0, FP64Sort)
		case types.Float32:
			return e.tt.FPConst(0, FP32Sort)
		case types.String, types.UntypedString:
			return StrV{}
		case types.UnsafePointer:
			return PtrV{}
		case types.UntypedNil:
			return nil
		}
		e.unsupported("zero of basic type " + u.String())
	case *types.Pointer:
		return PtrV{}
	case *types.Slice:
		return SliceV{}
	case *types.Map:
		return MapV{}
	case *types.Chan:
		return ChanV{}
	case *types.Signature:
		return NilFunc{}
	case *types.Interface:
		return IfaceV{}
	case *types.Struct:
		fs := make(StructV, u.NumFields())
		for i := range fs {
			fs[i] = e.zero(u.Field(i).Type())
		}
		return fs
	case *types.Array:
		n := int(u.Len())
		a := make(ArrayV, n)
		if n > 0 {
			z := e.zero(u.Elem())
			for i := range a {
				a[i] = z
			}
		}
		return a
	case *types.Tuple:
		tv := make(TupleV, u.Len())
		for i := range tv {
			tv[i] = e.zero(u.At(i).Type())
		}
		return tv
	}
	e.unsupported("zero of type " + t.String())
	return nil
}

func (e *Exec) newObj(v Value, t types.Type) *Obj {
	e.nextObj++
	return &Obj{id: e.nextObj, val: v, typ: t, epoch: e.epoch}
}

// touch must be called before any in-place mutation of o. Objects of the init phase are saved so
// that they can be restored when the path ends.
func (e *Exec) touch(o *Obj) {
	if e.writeHook != nil {
		e.writeHook(o)
	}
	if o.epoch == 0 && e.epoch != 0 {
		if _, ok := e.saved[o]; !ok {
			e.saved[o] = cloneForSave(o)
		}
	}
}

func cloneForSave(o *Obj) Value {
	switch v := o.val.(type) {
	case *MapData:
		c := *v
		c.keys = append([]Value(nil), v.keys...)
		c.vals = append([]Value(nil), v.vals...)
		c.dead = append([]bool(nil), v.dead...)
		c.index = make(map[string]int, len(v.index))
		for k, i := range v.index {
			c.index[k] = i
		}
		return &c
	case *ChanData:
		c := *v
		c.buf = append([]Value(nil), v.buf...)
		return &c
	case ArrayV:
		if o.tag == "slice" {
			return append(ArrayV(nil), v...)
		}
	}
	return o.val
}

// navigate returns the value at path inside v.
func navigate(v Value, path []int) Value {
	for _, i := range path {
		switch c := v.(type) {
		case StructV:
			v = c[i]
		case ArrayV:
			v = c[i]
		default:
			panic(fmt.Sprintf("navigate: bad container %T", v))
		}
	}
	return v
}

// update returns a copy of v with the value at path replaced.
func update(v Value, path []int, nv Value) Value {
	if len(path) == 0 {
		return nv
	}
	i := path[0]
	switch c := v.(type) {
	case StructV:
		n := make(StructV, len(c))
		copy(n, c)
		n[i] = update(c[i], path[1:], nv)
		return n
	case ArrayV:
		n := make(ArrayV, len(c))
		copy(n, c)
		n[i] = update(c[i], path[1:], nv)
		return n
	}
	panic(fmt.Sprintf("update: bad container %T", v))
}

func (e *Exec) load(p PtrV) Value {
	if p.obj == nil {
		e.runtimePanic("invalid memory address or nil pointer dereference")
	}
	if len(p.path) == 1 {
		if a, ok := p.obj.val.(ArrayV); ok {
			return a[p.path[0]]
		}
	}
	return navigate(p.obj.val, p.path)
}

func (e *Exec) store(p PtrV, v Value) {
	if p.obj == nil {
		e.runtimePanic("invalid memory address or nil pointer dereference")
	}
	e.touch(p.obj)
	if len(p.path) == 1 {
		// slices' backing arrays are mutated in place (they are never shared by value:
		// loading a whole array copies it)
		if a, ok := p.obj.val.(ArrayV); ok && p.obj.tag == "slice" {
			a[p.path[0]] = v
			return
		}
	}
	p.obj.val = update(p.obj.val, p.path, v)
}

func (p PtrV) extend(i int) PtrV {
	np := make([]int, len(p.path)+1)
	copy(np, p.path)
	np[len(p.path)] = i
	return PtrV{p.obj, np}
}

func samePath(a, b []int) bool {
	if len(a) != len(b) {
		return false
	}
	for i := range a {
		if a[i] != b[i] {
			return false
		}
	}
	return true
}

// ---- strings ----

func (s StrV) Len() int {
	if s.opq != nil {
		opaqueInspect()
	}
	if s.sym != nil {
		return len(s.sym)
	}
	return len(s.s)
}

func (s StrV) IsConcrete() bool {
	if s.opq != nil {
		return false
	}
	if s.sym == nil {
		return true
	}
	for _, b := range s.sym {
		if !b.Const {
			return false
		}
	}
	return true
}

func (s StrV) Concrete() string {
	if s.sym == nil {
		return s.s
	}
	bs := make([]byte, len(s.sym))
	for i, b := range s.sym {
		bs[i] = byte(b.U)
	}
	return string(bs)
}

func (e *Exec) strBytes(s StrV) []*Term {
	if s.opq != nil {
		opaqueInspect()
	}
	if s.sym != nil {
		return s.sym
	}
	out := make([]*Term, len(s.s))
	for i := 0; i < len(s.s); i++ {
		out[i] = e.byteConst(s.s[i])
	}
	return out
}

func (e *Exec) byteConst(b byte) *Term {
	if e.byteTab[b] == nil {
		e.byteTab[b] = e.tt.BVConst(uint64(b), 8)
	}
	return e.byteTab[b]
}

func (e *Exec) mkStr(bs []*Term) StrV {
	all := true
	for _, b := range bs {
		if !b.Const {
			all = false
			break
		}
	}
	if all {
		raw := make([]byte, len(bs))
		for i, b := range bs {
			raw[i] = byte(b.U)
		}
		return StrV{s: string(raw)}
	}
	if bs == nil {
		bs = []*Term{}
	}
	return StrV{sym: bs}
}

func (e *Exec) toOpaque(s StrV) *opaqueStr {
	if s.opq != nil {
		return s.opq
	}
	if s.sym != nil {
		return &opaqueStr{parts: []opaquePart{{sym: s.sym, kind: 2}}}
	}
	if s.s == "" {
		return &opaqueStr{}
	}
	return &opaqueStr{parts: []opaquePart{{lit: s.s}}}
}

func (e *Exec) opaqueConcat(a, b *opaqueStr) StrV {
	ps := append(append([]opaquePart(nil), a.parts...), b.parts...)
	// merge adjacent literals
	var out []opaquePart
	for _, p := range ps {
		if p.kind == 0 && len(out) > 0 && out[len(out)-1].kind == 0 {
			out[len(out)-1].lit += p.lit
			continue
		}
		out = append(out, p)
	}
	return StrV{opq: &opaqueStr{parts: out}}
}

func isDigitOrSign(b byte) bool { return (b >= '0' && b <= '9') || b == '-' || b == '+' }

// token kinds: 1 = decimal integer, 4 = strconv.FormatFloat(f,'f',-1,64), 5 = %v / 'g' rendering of a float64
func tokenAlphabet(kind int, b byte) bool {
	switch kind {
	case 1:
		return (b >= '0' && b <= '9') || b == '-'
	case 4, 5:
		return (b >= '0' && b <= '9') || b == '-' || b == '+' || b == '.' || b == 'e' || b == 'E' || b == 'I' || b == 'n' || b == 'f' || b == 'N' || b == 'a'
	}
	return true
}

type oItem struct {
	b   *Term // one byte (when tok == 0)
	tok int   // token kind
	t   *Term
	uns bool
}

func (e *Exec) flattenOpaque(o *opaqueStr) []oItem {
	var out []oItem
	for _, p := range o.parts {
		switch p.kind {
		case 0:
			for i := 0; i < len(p.lit); i++ {
				out = append(out, oItem{b: e.byteConst(p.lit[i])})
			}
		case 2:
			for _, b := range p.sym {
				out = append(out, oItem{b: b})
			}
		case 1, 4, 5:
			out = append(out, oItem{tok: p.kind, t: p.dec, uns: p.uns})
		default:
			e.unsupported("comparison of a formatted string with an unmodelled part")
		}
	}
	return out
}

// delimited: the item following a token must be a concrete byte outside the token alphabet, or the end.
func (e *Exec) tokenDelimited(items []oItem, kind int) bool {
	if len(items) == 0 {
		return true
	}
	it := items[0]
	return it.tok == 0 && it.b.Const && !tokenAlphabet(kind, byte(it.b.U))
}

// tokenEqConst: token renders exactly the concrete text?
func (e *Exec) tokenEqConst(it oItem, text string) *Term {
	tt := e.tt
	switch it.tok {
	case 1:
		if it.uns {
			u, err := strconv.ParseUint(text, 10, 64)
			if err != nil || strconv.FormatUint(u, 10) != text {
				return tt.Bool(false)
			}
			if it.t.S.W < 64 && u > mask(it.t.S.W) {
				return tt.Bool(false)
			}
			return tt.Eq(it.t, tt.BVConst(u, it.t.S.W))
		}
		v, err := strconv.ParseInt(text, 10, 64)
		if err != nil || strconv.FormatInt(v, 10) != text {
			return tt.Bool(false)
		}
		w := it.t.S.W
		if w < 64 && (v < -(int64(1)<<uint(w-1)) || v >= int64(1)<<uint(w-1)) {
			return tt.Bool(false)
		}
		return tt.Eq(it.t, tt.BVConst(uint64(v), w))
	case 4, 5:
		f, err := strconv.ParseFloat(text, 64)
		if err != nil {
			return tt.Bool(false)
		}
		canon := strconv.FormatFloat(f, 'f', -1, 64)
		if it.tok == 5 {
			canon = fmt.Sprintf("%v", f)
		}
		if canon != text {
			return tt.Bool(false)
		}
		return tt.Eq(it.t, tt.FPConst(f, it.t.S))
	}
	return tt.Bool(false)
}

// opaqueEq decides equality of two formatted strings from their structure: fixed bytes are compared
// bytewise, tokens (decimal / float renderings, injective on values) are compared by value when they
// start at the same offset and are delimited by a byte outside their alphabet. Anything that cannot be
// decided this way ends the path as unsupported.
func (e *Exec) opaqueEq(a, b *opaqueStr) *Term {
	tt := e.tt
	A, B := e.flattenOpaque(a), e.flattenOpaque(b)
	r := tt.Bool(true)
	for {
		if r.IsFalse() {
			return r
		}
		if len(A) == 0 || len(B) == 0 {
			if len(A) == 0 && len(B) == 0 {
				return r
			}
			rest := A
			if len(A) == 0 {
				rest = B
			}
			// the longer side still has content; tokens are never empty, bytes neither
			_ = rest
			return tt.Bool(false)
		}
		x, y := A[0], B[0]
		switch {
		case x.tok == 0 && y.tok == 0:
			r = tt.And(r, tt.Eq(x.b, y.b))
			A, B = A[1:], B[1:]
		case x.tok != 0 && y.tok != 0 && ((x.tok == 1 && y.tok == 4) || (x.tok == 4 && y.tok == 1)):
			// decimal integer against FormatFloat(f,'f',-1,64): equal texts iff f is a finite integral
			// value other than -0 that denotes the same integer ('f' never uses an exponent)
			if !e.tokenDelimited(A[1:], x.tok) || !e.tokenDelimited(B[1:], y.tok) {
				e.unsupported("formatted number not delimited inside a compared string")
			}
			it, ft := x, y
			if x.tok == 4 {
				it, ft = y, x
			}
			f := ft.t
			iv := it.t
			if iv.S.W < 64 {
				if it.uns {
					iv = tt.ZExt(iv, 64)
				} else {
					iv = tt.SExt(iv, 64)
				}
			}
			integral := tt.FCmp("fp.eq", tt.FRound(f, 1), f)
			notNegZero := tt.Not(tt.Eq(f, tt.FPConst(math.Copysign(0, -1), FP64Sort)))
			var same *Term
			if it.uns {
				inr := tt.And(tt.FCmp("fp.leq", tt.FPConst(0, FP64Sort), f), tt.FCmp("fp.lt", f, tt.FPConst(18446744073709551616.0, FP64Sort)))
				same = tt.And(inr, tt.Eq(tt.FPToInt(f, false, 64), iv))
			} else {
				inr := tt.And(tt.FCmp("fp.leq", tt.FPConst(-9223372036854775808.0, FP64Sort), f), tt.FCmp("fp.lt", f, tt.FPConst(9223372036854775808.0, FP64Sort)))
				same = tt.And(inr, tt.Eq(tt.FPToInt(f, true, 64), iv))
			}
			r = tt.And(r, tt.And(tt.And(integral, notNegZero), same))
			A, B = A[1:], B[1:]
		case x.tok != 0 && y.tok != 0:
			if x.tok == 1 && y.tok == 1 && x.uns != y.uns {
				// signed against unsigned decimal: equal iff both denote the same non-negative integer
				if !e.tokenDelimited(A[1:], 1) || !e.tokenDelimited(B[1:], 1) {
					e.unsupported("formatted number not delimited inside a compared string")
				}
				st, ut := x, y
				if x.uns {
					st, ut = y, x
				}
				sv, uv := tt.SExt(st.t, 64), tt.ZExt(ut.t, 64)
				r = tt.And(r, tt.And(tt.SLe(tt.BVConst(0, 64), sv), tt.Eq(sv, uv)))
				A, B = A[1:], B[1:]
				continue
			}
			if x.tok == 1 && y.tok == 1 && x.t.S != y.t.S {
				if !e.tokenDelimited(A[1:], 1) || !e.tokenDelimited(B[1:], 1) {
					e.unsupported("formatted number not delimited inside a compared string")
				}
				if x.uns {
					r = tt.And(r, tt.Eq(tt.ZExt(x.t, 64), tt.ZExt(y.t, 64)))
				} else {
					r = tt.And(r, tt.Eq(tt.SExt(x.t, 64), tt.SExt(y.t, 64)))
				}
				A, B = A[1:], B[1:]
				continue
			}
			if x.tok != y.tok || x.uns != y.uns || x.t.S != y.t.S {
				e.unsupported("comparison of differently rendered numbers inside formatted strings")
			}
			if !e.tokenDelimited(A[1:], x.tok) || !e.tokenDelimited(B[1:], y.tok) {
				e.unsupported("formatted number not delimited inside a compared string")
			}
			r = tt.And(r, tt.Eq(x.t, y.t))
			A, B = A[1:], B[1:]
		default:
			// token against bytes
			tokSide, byteSide := A, B
			if x.tok == 0 {
				tokSide, byteSide = B, A
			}
			tk := tokSide[0]
			// collect the concrete run on the byte side up to a byte outside the alphabet
			n := 0
			for n < len(byteSide) && byteSide[n].tok == 0 && byteSide[n].b.Const && tokenAlphabet(tk.tok, byte(byteSide[n].b.U)) {
				n++
			}
			if n < len(byteSide) && (byteSide[n].tok != 0 || !byteSide[n].b.Const) {
				// before giving up: the prefix compared so far may already be impossible on this path
				if e.infeasibleHere(r) {
					return tt.Bool(false)
				}
				if n == 0 && byteSide[0].tok == 0 && !byteSide[0].b.Const {
					// symbolic byte against the first character of a number: equal only if that byte is in
					// the alphabet; we cannot follow further
					e.unsupported("formatted number compared against symbolic bytes")
				}
				e.unsupported("formatted number compared against a partly symbolic run")
			}
			if n == 0 {
				return tt.Bool(false)
			}
			if !e.tokenDelimited(tokSide[1:], tk.tok) {
				e.unsupported("formatted number not delimited inside a compared string")
			}
			raw := make([]byte, n)
			for i := 0; i < n; i++ {
				raw[i] = byte(byteSide[i].b.U)
			}
			r = tt.And(r, e.tokenEqConst(tk, string(raw)))
			if x.tok == 0 {
				A, B = A[n:], B[1:]
			} else {
				A, B = A[1:], B[n:]
			}
		}
	}
}

func (e *Exec) strConcat(a, b StrV) StrV {
	if a.opq != nil || b.opq != nil {
		return e.opaqueConcat(e.toOpaque(a), e.toOpaque(b))
	}
	if a.sym == nil && b.sym == nil {
		return StrV{s: a.s + b.s}
	}
	if a.Len() == 0 {
		return b
	}
	if b.Len() == 0 {
		return a
	}
	x := e.strBytes(a)
	y := e.strBytes(b)
	out := make([]*Term, 0, len(x)+len(y))
	out = append(out, x...)
	out = append(out, y...)
	return e.mkStr(out)
}

func (e *Exec) strEq(a, b StrV) *Term {
	if a.opq != nil || b.opq != nil {
		return e.opaqueEq(e.toOpaque(a), e.toOpaque(b))
	}
	if a.Len() != b.Len() {
		return e.tt.Bool(false)
	}
	if a.sym == nil && b.sym == nil {
		return e.tt.Bool(a.s == b.s)
	}
	x, y := e.strBytes(a), e.strBytes(b)
	r := e.tt.Bool(true)
	for i := range x {
		r = e.tt.And(r, e.tt.Eq(x[i], y[i]))
		if r.IsFalse() {
			return r
		}
	}
	return r
}

// strLess: lexicographic a < b as a term
func (e *Exec) strLess(a, b StrV) *Term {
	if a.opq != nil || b.opq != nil {
		opaqueInspect()
	}
	if a.sym == nil && b.sym == nil {
		return e.tt.Bool(a.s < b.s)
	}
	x, y := e.strBytes(a), e.strBytes(b)
	n := len(x)
	if len(y) < n {
		n = len(y)
	}
	// from the back
	r := e.tt.Bool(len(x) < len(y))
	for i := n - 1; i >= 0; i-- {
		r = e.tt.Or(e.tt.ULt(x[i], y[i]), e.tt.And(e.tt.Eq(x[i], y[i]), r))
	}
	return r
}

func (e *Exec) strSub(s StrV, lo, hi int) StrV {
	if s.opq != nil {
		opaqueInspect()
	}
	if s.sym == nil {
		return StrV{s: s.s[lo:hi]}
	}
	return e.mkStr(s.sym[lo:hi])
}

// ---- maps ----

func concreteKeyString(k Value) (string, bool) {
	switch x := k.(type) {
	case StrV:
		if x.opq != nil {
			return "", false
		}
		if x.sym == nil {
			return "s:" + x.s, true
		}
		if x.IsConcrete() {
			return "s:" + x.Concrete(), true
		}
	case *Term:
		if x.Const && x.S.K != SFP64 && x.S.K != SFP32 {
			return fmt.Sprintf("i%d:%d", x.S.W, x.U), true
		}
	case PtrV:
		if x.obj == nil {
			return "p:nil", true
		}
		var sb strings.Builder
		fmt.Fprintf(&sb, "p:%d", x.obj.id)
		for _, i := range x.path {
			fmt.Fprintf(&sb, ".%d", i)
		}
		return sb.String(), true
	}
	return "", false
}

func (e *Exec) newMap(kt, vt types.Type) MapV {
	md := &MapData{index: map[string]int{}, ktype: kt, vtype: vt}
	o := e.newObj(md, nil)
	o.tag = "map"
	return MapV{o}
}

// mapFind returns the slot index of key k, or -1. May fork (Branch) on symbolic equality.
func (e *Exec) mapFind(md *MapData, k Value) int {
	if ks, ok := concreteKeyString(k); ok {
		if i, ok := md.index[ks]; ok {
			return i
		}
		// still need to compare against symbolic keys present in the map
		for i := range md.keys {
			if md.dead[i] {
				continue
			}
			if _, c := concreteKeyString(md.keys[i]); c {
				continue
			}
			if e.Branch(e.valEq(md.keys[i], k, md.ktype)) {
				return i
			}
		}
		return -1
	}
	for i := range md.keys {
		if md.dead[i] {
			continue
		}
		if e.Branch(e.valEq(md.keys[i], k, md.ktype)) {
			return i
		}
	}
	return -1
}

func (e *Exec) mapGet(m MapV, k Value) (Value, bool) {
	if m.obj == nil {
		return nil, false
	}
	md := m.obj.val.(*MapData)
	i := e.mapFind(md, k)
	if i < 0 {
		return nil, false
	}
	return md.vals[i], true
}

func (e *Exec) mapSet(m MapV, k, v Value) {
	if m.obj == nil {
		e.runtimePanic("assignment to entry in nil map")
	}
	e.touch(m.obj)
	md := m.obj.val.(*MapData)
	i := e.mapFind(md, k)
	if i >= 0 {
		md.vals[i] = v
		return
	}
	md.keys = append(md.keys, k)
	md.vals = append(md.vals, v)
	md.dead = append(md.dead, false)
	md.n++
	if ks, ok := concreteKeyString(k); ok {
		md.index[ks] = len(md.keys) - 1
	}
}

func (e *Exec) mapDelete(m MapV, k Value) {
	if m.obj == nil {
		return
	}
	e.touch(m.obj)
	md := m.obj.val.(*MapData)
	i := e.mapFind(md, k)
	if i < 0 {
		return
	}
	md.dead[i] = true
	md.n--
	if ks, ok := concreteKeyString(md.keys[i]); ok {
		delete(md.index, ks)
	}
}

// ---- equality of values by static type ----

func (e *Exec) valEq(a, b Value, t types.Type) *Term {
	tt := e.tt
	switch x := a.(type) {
	case *Term:
		y := b.(*Term)
		if isFP(x.S) {
			return tt.FCmp("fp.eq", x, y)
		}
		return tt.Eq(x, y)
	case StrV:
		return e.strEq(x, b.(StrV))
	case TimeV:
		y := b.(TimeV)
		if x.zero || y.zero {
			return tt.Bool(x.zero == y.zero)
		}
		return tt.Eq(x.ns, y.ns)
	case PtrV:
		y, ok := b.(PtrV)
		if !ok {
			return tt.Bool(false) // native handle vs nil
		}
		return tt.Bool(x.obj == y.obj && samePath(x.path, y.path))
	case MapV:
		return tt.Bool(x.obj == b.(MapV).obj)
	case ChanV:
		return tt.Bool(x.obj == b.(ChanV).obj)
	case SliceV:
		y := b.(SliceV)
		if x.arr != nil && y.arr != nil {
			e.unsupported("slice comparison")
		}
		return tt.Bool(x.arr == y.arr)
	case NilFunc:
		_, ok := b.(NilFunc)
		return tt.Bool(ok)
	case ReflT:
		// reflect.Type values: identical types are the same *rtype
		y, ok := b.(ReflT)
		return tt.Bool(ok && types.Identical(x.t, y.t))
	case *ssa.Function, *ClosureV, *ssa.Builtin:
		if _, ok := b.(NilFunc); ok {
			return tt.Bool(false)
		}
		e.unsupported("func comparison")
	case StructV:
		y := b.(StructV)
		st := t.Underlying().(*types.Struct)
		r := tt.Bool(true)
		for i := range x {
			r = tt.And(r, e.valEq(x[i], y[i], st.Field(i).Type()))
		}
		return r
	case ArrayV:
		y := b.(ArrayV)
		at := t.Underlying().(*types.Array)
		r := tt.Bool(true)
		for i := range x {
			r = tt.And(r, e.valEq(x[i], y[i], at.Elem()))
		}
		return r
	case IfaceV:
		y, ok := b.(IfaceV)
		if !ok {
			e.unsupported(fmt.Sprintf("iface compared with %T", b))
		}
		if x.t == nil || y.t == nil {
			return tt.Bool(x.t == nil && y.t == nil)
		}
		if !types.Identical(x.t, y.t) {
			return tt.Bool(false)
		}
		if !types.Comparable(x.t) {
			e.runtimePanic("runtime error: comparing uncomparable type " + x.t.String())
		}
		return e.valEq(x.v, y.v, x.t)
	case NativeV:
		y, ok := b.(NativeV)
		return tt.Bool(ok && x.v == y.v)
	case nil:
		return tt.Bool(b == nil)
	}
	e.unsupported(fmt.Sprintf("valEq on %T", a))
	return nil
}

func describe(v Value) string {
	switch x := v.(type) {
	case *Term:
		if x.Const {
			if x.S.K == SBool {
				return fmt.Sprint(x.U == 1)
			}
			if x.S.K == SBV {
				return fmt.Sprintf("%d", sext(x.U, x.S.W))
			}
			return fmt.Sprint(x.F)
		}
		return "<sym>"
	case StrV:
		if x.IsConcrete() {
			return fmt.Sprintf("%q", x.Concrete())
		}
		return fmt.Sprintf("<symstr len %d>", x.Len())
	case IfaceV:
		if x.t == nil {
			return "nil"
		}
		return x.t.String() + "(" + describe(x.v) + ")"
	}
	return fmt.Sprintf("%T", v)
}

// infeasibleHere: is c unsatisfiable together with the current path condition?
func (e *Exec) infeasibleHere(c *Term) bool {
	if c.IsFalse() {
		return true
	}
	if c.IsTrue() {
		return false
	}
	if mv, ok := e.evalBool(c); ok && mv {
		return false
	}
	r, _ := e.checkSatModel(c)
	return r == Unsat
}
