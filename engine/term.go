package main

// Term DAG with hash-consing and constant folding. One table per Exec (no locking).

import (
	"fmt"
	"math"
	"math/bits"
	"sort"
	"strconv"
	"strings"
)

type SortKind int

const (
	SBool SortKind = iota
	SBV
	SFP64
	SFP32
)

type Sort struct {
	K SortKind
	W int // for BV
}

func (s Sort) String() string {
	switch s.K {
	case SBool:
		return "Bool"
	case SBV:
		return fmt.Sprintf("(_ BitVec %d)", s.W)
	case SFP64:
		return "(_ FloatingPoint 11 53)"
	case SFP32:
		return "(_ FloatingPoint 8 24)"
	}
	return "?"
}

func BV(w int) Sort { return Sort{SBV, w} }

var BoolSort = Sort{SBool, 0}
var FP64Sort = Sort{SFP64, 0}
var FP32Sort = Sort{SFP32, 0}

type Term struct {
	Op   string
	S    Sort
	Args []*Term
	P    [2]int // params (extract hi lo, extend n)
	// constants
	Const bool
	U     uint64  // BV value (masked) or bool (0/1)
	F     float64 // FP value (FP32 stored as float64 of the float32)
	Name  string  // variable name
	id    int
}

type TermTable struct {
	tab    map[string]*Term
	next   int
	Vars   []*Term
	varBy  map[string]*Term
	fpMemo map[*Term]bool
	bMemo  map[*Term]float64
}

func NewTermTable() *TermTable {
	return &TermTable{tab: map[string]*Term{}, varBy: map[string]*Term{}}
}

func mask(w int) uint64 {
	if w >= 64 {
		return ^uint64(0)
	}
	return (uint64(1) << uint(w)) - 1
}

func sext(u uint64, w int) int64 {
	if w >= 64 {
		return int64(u)
	}
	sh := uint(64 - w)
	return int64(u<<sh) >> sh
}

func (tt *TermTable) intern(key string, mk func() *Term) *Term {
	if t, ok := tt.tab[key]; ok {
		return t
	}
	t := mk()
	tt.next++
	t.id = tt.next
	tt.tab[key] = t
	return t
}

func (tt *TermTable) BVConst(u uint64, w int) *Term {
	u &= mask(w)
	key := "c" + strconv.Itoa(w) + ":" + strconv.FormatUint(u, 16)
	return tt.intern(key, func() *Term { return &Term{Op: "const", S: BV(w), Const: true, U: u} })
}

func (tt *TermTable) Bool(b bool) *Term {
	if b {
		return tt.intern("true", func() *Term { return &Term{Op: "const", S: BoolSort, Const: true, U: 1} })
	}
	return tt.intern("false", func() *Term { return &Term{Op: "const", S: BoolSort, Const: true, U: 0} })
}

func (tt *TermTable) FPConst(f float64, s Sort) *Term {
	if s.K == SFP32 {
		f = float64(float32(f))
	}
	key := "f" + strconv.Itoa(int(s.K)) + ":" + strconv.FormatUint(math.Float64bits(f), 16)
	if f != f {
		key = "f" + strconv.Itoa(int(s.K)) + ":nan"
		f = math.NaN()
	}
	return tt.intern(key, func() *Term { return &Term{Op: "const", S: s, Const: true, F: f} })
}

func (tt *TermTable) Var(name string, s Sort) *Term {
	if t, ok := tt.varBy[name]; ok {
		if t.S != s {
			panic("var sort clash " + name)
		}
		return t
	}
	tt.next++
	t := &Term{Op: "var", S: s, Name: name, id: tt.next}
	tt.varBy[name] = t
	tt.Vars = append(tt.Vars, t)
	return t
}

func (t *Term) IsTrue() bool  { return t.Const && t.S.K == SBool && t.U == 1 }
func (t *Term) IsFalse() bool { return t.Const && t.S.K == SBool && t.U == 0 }

func (tt *TermTable) mk(op string, s Sort, p [2]int, args ...*Term) *Term {
	var sb strings.Builder
	sb.WriteString(op)
	if p[0] != 0 || p[1] != 0 {
		sb.WriteString(fmt.Sprintf("[%d,%d]", p[0], p[1]))
	}
	if s.K == SBV {
		sb.WriteString("/" + strconv.Itoa(s.W))
	} else if s.K != SBool {
		sb.WriteString("/f" + strconv.Itoa(int(s.K)))
	}
	for _, a := range args {
		sb.WriteByte(' ')
		sb.WriteString(strconv.Itoa(a.id))
	}
	as := append([]*Term(nil), args...)
	return tt.intern(sb.String(), func() *Term { return &Term{Op: op, S: s, Args: as, P: p} })
}

// ---------- Bool ops ----------

func (tt *TermTable) Not(a *Term) *Term {
	if a.Const {
		return tt.Bool(a.U == 0)
	}
	if a.Op == "not" {
		return a.Args[0]
	}
	return tt.mk("not", BoolSort, [2]int{}, a)
}

func (tt *TermTable) And(a, b *Term) *Term {
	if a.Const {
		if a.U == 1 {
			return b
		}
		return a
	}
	if b.Const {
		if b.U == 1 {
			return a
		}
		return b
	}
	if a == b {
		return a
	}
	if (a.Op == "not" && a.Args[0] == b) || (b.Op == "not" && b.Args[0] == a) {
		return tt.Bool(false)
	}
	if a.id > b.id {
		a, b = b, a
	}
	return tt.mk("and", BoolSort, [2]int{}, a, b)
}

func (tt *TermTable) Or(a, b *Term) *Term {
	if a.Const {
		if a.U == 0 {
			return b
		}
		return a
	}
	if b.Const {
		if b.U == 0 {
			return a
		}
		return b
	}
	if a == b {
		return a
	}
	if (a.Op == "not" && a.Args[0] == b) || (b.Op == "not" && b.Args[0] == a) {
		return tt.Bool(true)
	}
	if a.id > b.id {
		a, b = b, a
	}
	return tt.mk("or", BoolSort, [2]int{}, a, b)
}

func (tt *TermTable) Implies(a, b *Term) *Term { return tt.Or(tt.Not(a), b) }

func (tt *TermTable) Ite(c, a, b *Term) *Term {
	if c.Const {
		if c.U == 1 {
			return a
		}
		return b
	}
	if a == b {
		return a
	}
	if a.S != b.S {
		panic(fmt.Sprintf("ite sort mismatch %v %v", a.S, b.S))
	}
	if a.S.K == SBool {
		if a.Const && b.Const {
			if a.U == 1 {
				return c
			}
			return tt.Not(c)
		}
		if a.Const {
			if a.U == 1 {
				return tt.Or(c, b)
			}
			return tt.And(tt.Not(c), b)
		}
		if b.Const {
			if b.U == 1 {
				return tt.Or(tt.Not(c), a)
			}
			return tt.And(c, a)
		}
	}
	return tt.mk("ite", a.S, [2]int{}, c, a, b)
}

func (tt *TermTable) Eq(a, b *Term) *Term {
	if a.S != b.S {
		panic(fmt.Sprintf("eq sort mismatch %v %v", a.S, b.S))
	}
	if a == b {
		if a.S.K == SFP64 || a.S.K == SFP32 {
			// structural "=" on FP (bit identity, NaN = NaN); used only internally
			return tt.Bool(true)
		}
		return tt.Bool(true)
	}
	if a.Const && b.Const {
		switch a.S.K {
		case SBool, SBV:
			return tt.Bool(a.U == b.U)
		}
	}
	if a.S.K == SBool {
		if a.Const {
			if a.U == 1 {
				return b
			}
			return tt.Not(b)
		}
		if b.Const {
			if b.U == 1 {
				return a
			}
			return tt.Not(a)
		}
	}
	// ite(c, k1, k2) == k  folding
	if a.S.K == SBV {
		if b.Const && a.Op == "ite" && a.Args[1].Const && a.Args[2].Const {
			return tt.Ite(a.Args[0], tt.Bool(a.Args[1].U == b.U), tt.Bool(a.Args[2].U == b.U))
		}
		if a.Const && b.Op == "ite" && b.Args[1].Const && b.Args[2].Const {
			return tt.Ite(b.Args[0], tt.Bool(b.Args[1].U == a.U), tt.Bool(b.Args[2].U == a.U))
		}
	}
	if a.id > b.id {
		a, b = b, a
	}
	return tt.mk("=", BoolSort, [2]int{}, a, b)
}

// ---------- BV ops ----------

func (tt *TermTable) bin(op string, a, b *Term) *Term {
	if a.S != b.S || a.S.K != SBV {
		panic(fmt.Sprintf("bv op %s sort mismatch %v %v", op, a.S, b.S))
	}
	w := a.S.W
	if a.Const && b.Const {
		x, y := a.U, b.U
		sx, sy := sext(x, w), sext(y, w)
		switch op {
		case "bvadd":
			return tt.BVConst(x+y, w)
		case "bvsub":
			return tt.BVConst(x-y, w)
		case "bvmul":
			return tt.BVConst(x*y, w)
		case "bvand":
			return tt.BVConst(x&y, w)
		case "bvor":
			return tt.BVConst(x|y, w)
		case "bvxor":
			return tt.BVConst(x^y, w)
		case "bvudiv":
			if y == 0 {
				return tt.BVConst(mask(w), w)
			}
			return tt.BVConst(x/y, w)
		case "bvurem":
			if y == 0 {
				return tt.BVConst(x, w)
			}
			return tt.BVConst(x%y, w)
		case "bvsdiv":
			if sy == 0 {
				if sx >= 0 {
					return tt.BVConst(mask(w), w)
				}
				return tt.BVConst(1, w)
			}
			if sy == -1 {
				return tt.BVConst(uint64(-sx), w)
			}
			return tt.BVConst(uint64(sx/sy), w)
		case "bvsrem":
			if sy == 0 {
				return tt.BVConst(x, w)
			}
			if sy == -1 {
				return tt.BVConst(0, w)
			}
			return tt.BVConst(uint64(sx%sy), w)
		case "bvshl":
			if y >= uint64(w) {
				return tt.BVConst(0, w)
			}
			return tt.BVConst(x<<y, w)
		case "bvlshr":
			if y >= uint64(w) {
				return tt.BVConst(0, w)
			}
			return tt.BVConst(x>>y, w)
		case "bvashr":
			if y >= uint64(w) {
				if sx < 0 {
					return tt.BVConst(mask(w), w)
				}
				return tt.BVConst(0, w)
			}
			return tt.BVConst(uint64(sx>>y), w)
		}
	}
	switch op {
	case "bvadd":
		if a.Const && a.U == 0 {
			return b
		}
		if b.Const && b.U == 0 {
			return a
		}
	case "bvsub":
		if b.Const && b.U == 0 {
			return a
		}
		if a == b {
			return tt.BVConst(0, w)
		}
	case "bvmul":
		if a.Const && a.U == 1 {
			return b
		}
		if b.Const && b.U == 1 {
			return a
		}
		if (a.Const && a.U == 0) || (b.Const && b.U == 0) {
			return tt.BVConst(0, w)
		}
	case "bvand":
		if a == b {
			return a
		}
		if (a.Const && a.U == 0) || (b.Const && b.U == 0) {
			return tt.BVConst(0, w)
		}
		if a.Const && a.U == mask(w) {
			return b
		}
		if b.Const && b.U == mask(w) {
			return a
		}
	case "bvor":
		if a == b {
			return a
		}
		if a.Const && a.U == 0 {
			return b
		}
		if b.Const && b.U == 0 {
			return a
		}
	case "bvxor":
		if a == b {
			return tt.BVConst(0, w)
		}
		if a.Const && a.U == 0 {
			return b
		}
		if b.Const && b.U == 0 {
			return a
		}
	case "bvshl", "bvlshr", "bvashr":
		if b.Const && b.U == 0 {
			return a
		}
	case "bvudiv", "bvsdiv":
		if b.Const && b.U == 1 {
			return a
		}
	}
	switch op {
	case "bvadd", "bvmul", "bvand", "bvor", "bvxor":
		if a.id > b.id {
			a, b = b, a
		}
	}
	return tt.mk(op, a.S, [2]int{}, a, b)
}

func (tt *TermTable) Add(a, b *Term) *Term  { return tt.bin("bvadd", a, b) }
func (tt *TermTable) Sub(a, b *Term) *Term  { return tt.bin("bvsub", a, b) }
func (tt *TermTable) Mul(a, b *Term) *Term  { return tt.bin("bvmul", a, b) }
func (tt *TermTable) BAnd(a, b *Term) *Term { return tt.bin("bvand", a, b) }
func (tt *TermTable) BOr(a, b *Term) *Term  { return tt.bin("bvor", a, b) }
func (tt *TermTable) BXor(a, b *Term) *Term { return tt.bin("bvxor", a, b) }
func (tt *TermTable) SDiv(a, b *Term) *Term { return tt.bin("bvsdiv", a, b) }
func (tt *TermTable) UDiv(a, b *Term) *Term { return tt.bin("bvudiv", a, b) }
func (tt *TermTable) SRem(a, b *Term) *Term { return tt.bin("bvsrem", a, b) }
func (tt *TermTable) URem(a, b *Term) *Term { return tt.bin("bvurem", a, b) }
func (tt *TermTable) Shl(a, b *Term) *Term  { return tt.bin("bvshl", a, b) }
func (tt *TermTable) LShr(a, b *Term) *Term { return tt.bin("bvlshr", a, b) }
func (tt *TermTable) AShr(a, b *Term) *Term { return tt.bin("bvashr", a, b) }

func (tt *TermTable) Neg(a *Term) *Term {
	if a.Const {
		return tt.BVConst(-a.U, a.S.W)
	}
	return tt.mk("bvneg", a.S, [2]int{}, a)
}

func (tt *TermTable) BNot(a *Term) *Term {
	if a.Const {
		return tt.BVConst(^a.U, a.S.W)
	}
	return tt.mk("bvnot", a.S, [2]int{}, a)
}

func (tt *TermTable) cmp(op string, a, b *Term) *Term {
	if a.S != b.S || a.S.K != SBV {
		panic(fmt.Sprintf("bv cmp %s sort mismatch %v %v", op, a.S, b.S))
	}
	w := a.S.W
	if a.Const && b.Const {
		switch op {
		case "bvult":
			return tt.Bool(a.U < b.U)
		case "bvule":
			return tt.Bool(a.U <= b.U)
		case "bvslt":
			return tt.Bool(sext(a.U, w) < sext(b.U, w))
		case "bvsle":
			return tt.Bool(sext(a.U, w) <= sext(b.U, w))
		}
	}
	if a == b {
		return tt.Bool(op == "bvule" || op == "bvsle")
	}
	return tt.mk(op, BoolSort, [2]int{}, a, b)
}

func (tt *TermTable) ULt(a, b *Term) *Term { return tt.cmp("bvult", a, b) }
func (tt *TermTable) ULe(a, b *Term) *Term { return tt.cmp("bvule", a, b) }
func (tt *TermTable) SLt(a, b *Term) *Term { return tt.cmp("bvslt", a, b) }
func (tt *TermTable) SLe(a, b *Term) *Term { return tt.cmp("bvsle", a, b) }

func (tt *TermTable) Extract(a *Term, hi, lo int) *Term {
	w := hi - lo + 1
	if lo == 0 && w == a.S.W {
		return a
	}
	if a.Const {
		return tt.BVConst(a.U>>uint(lo), w)
	}
	if (a.Op == "zero_extend" || a.Op == "sign_extend") && hi < a.Args[0].S.W {
		return tt.Extract(a.Args[0], hi, lo)
	}
	return tt.mk("extract", BV(w), [2]int{hi, lo}, a)
}

func (tt *TermTable) ZExt(a *Term, to int) *Term {
	n := to - a.S.W
	if n == 0 {
		return a
	}
	if n < 0 {
		return tt.Extract(a, to-1, 0)
	}
	if a.Const {
		return tt.BVConst(a.U, to)
	}
	return tt.mk("zero_extend", BV(to), [2]int{n, 0}, a)
}

func (tt *TermTable) SExt(a *Term, to int) *Term {
	n := to - a.S.W
	if n == 0 {
		return a
	}
	if n < 0 {
		return tt.Extract(a, to-1, 0)
	}
	if a.Const {
		return tt.BVConst(uint64(sext(a.U, a.S.W)), to)
	}
	return tt.mk("sign_extend", BV(to), [2]int{n, 0}, a)
}

// ---------- FP ops ----------

func isFP(s Sort) bool { return s.K == SFP64 || s.K == SFP32 }

func (tt *TermTable) fround(f float64, s Sort) float64 {
	if s.K == SFP32 {
		return float64(float32(f))
	}
	return f
}

func (tt *TermTable) FBin(op string, a, b *Term) *Term {
	if a.S != b.S || !isFP(a.S) {
		panic("fp sort mismatch " + op)
	}
	if a.Const && b.Const {
		var r float64
		if a.S.K == SFP32 {
			x, y := float32(a.F), float32(b.F)
			switch op {
			case "fp.add":
				r = float64(x + y)
			case "fp.sub":
				r = float64(x - y)
			case "fp.mul":
				r = float64(x * y)
			case "fp.div":
				r = float64(x / y)
			}
		} else {
			switch op {
			case "fp.add":
				r = a.F + b.F
			case "fp.sub":
				r = a.F - b.F
			case "fp.mul":
				r = a.F * b.F
			case "fp.div":
				r = a.F / b.F
			}
		}
		return tt.FPConst(r, a.S)
	}
	return tt.mk(op, a.S, [2]int{}, a, b)
}

// fpBound returns a magnitude bound for t when t is provably finite and not NaN (conversions of
// integers, constants, and sums/products/quotients-by-constants of such terms that cannot overflow).
func (tt *TermTable) fpBound(t *Term) (float64, bool) {
	if tt.bMemo == nil {
		tt.bMemo = map[*Term]float64{}
	}
	if v, ok := tt.bMemo[t]; ok {
		return v, v >= 0
	}
	b, ok := tt.fpBound0(t)
	if !ok || b > 1e290 {
		tt.bMemo[t] = -1
		return 0, false
	}
	tt.bMemo[t] = b
	return b, true
}

func (tt *TermTable) fpBound0(t *Term) (float64, bool) {
	if !isFP(t.S) {
		return 0, false
	}
	if t.Const {
		if t.F != t.F || math.IsInf(t.F, 0) {
			return 0, false
		}
		return math.Abs(t.F), true
	}
	switch t.Op {
	case "to_fp_s", "to_fp_u":
		return math.Ldexp(1, t.Args[0].S.W), true
	case "fp.neg", "fp.abs", "fp.roundToIntegral", "fp.to_fp":
		return tt.fpBound(t.Args[0])
	case "fp.add", "fp.sub":
		a, ok1 := tt.fpBound(t.Args[0])
		b, ok2 := tt.fpBound(t.Args[1])
		return a + b, ok1 && ok2
	case "fp.mul":
		a, ok1 := tt.fpBound(t.Args[0])
		b, ok2 := tt.fpBound(t.Args[1])
		return a * b, ok1 && ok2
	case "fp.div":
		a, ok1 := tt.fpBound(t.Args[0])
		d := t.Args[1]
		if ok1 && d.Const && d.F == d.F && !math.IsInf(d.F, 0) && math.Abs(d.F) >= 1e-200 {
			return a / math.Abs(d.F), true
		}
		return 0, false
	case "ite":
		a, ok1 := tt.fpBound(t.Args[1])
		b, ok2 := tt.fpBound(t.Args[2])
		return math.Max(a, b), ok1 && ok2
	case "fp.sqrt":
		// sqrt of a finite value is finite or NaN (negative argument): not claimed
		return 0, false
	}
	return 0, false
}

func (tt *TermTable) FCmp(op string, a, b *Term) *Term {
	if a.S != b.S || !isFP(a.S) {
		panic("fp sort mismatch " + op)
	}
	if a == b && !a.Const {
		if _, ok := tt.fpBound(a); ok {
			// x op x for a value that is never NaN
			return tt.Bool(op == "fp.eq" || op == "fp.leq")
		}
	}
	if a.Const && b.Const {
		switch op {
		case "fp.lt":
			return tt.Bool(a.F < b.F)
		case "fp.leq":
			return tt.Bool(a.F <= b.F)
		case "fp.eq":
			return tt.Bool(a.F == b.F)
		}
	}
	return tt.mk(op, BoolSort, [2]int{}, a, b)
}

func (tt *TermTable) FNeg(a *Term) *Term {
	if a.Const {
		return tt.FPConst(-a.F, a.S)
	}
	return tt.mk("fp.neg", a.S, [2]int{}, a)
}

func (tt *TermTable) FAbs(a *Term) *Term {
	if a.Const {
		return tt.FPConst(math.Abs(a.F), a.S)
	}
	return tt.mk("fp.abs", a.S, [2]int{}, a)
}

func (tt *TermTable) FIsNaN(a *Term) *Term {
	if a.Const {
		return tt.Bool(a.F != a.F)
	}
	if _, ok := tt.fpBound(a); ok {
		return tt.Bool(false) // provably finite
	}
	return tt.mk("fp.isNaN", BoolSort, [2]int{}, a)
}

func (tt *TermTable) FIsInf(a *Term) *Term {
	if a.Const {
		return tt.Bool(math.IsInf(a.F, 0))
	}
	if _, ok := tt.fpBound(a); ok {
		return tt.Bool(false) // provably finite
	}
	return tt.mk("fp.isInfinite", BoolSort, [2]int{}, a)
}

// FUn: rounding unary ops: fp.roundToIntegral with mode in P[0] (0=RNE,1=RTZ,2=RTP,3=RTN), fp.sqrt
func (tt *TermTable) FRound(a *Term, mode int) *Term {
	if a.Const {
		switch mode {
		case 0:
			return tt.FPConst(math.RoundToEven(a.F), a.S)
		case 1:
			return tt.FPConst(math.Trunc(a.F), a.S)
		case 2:
			return tt.FPConst(math.Ceil(a.F), a.S)
		case 3:
			return tt.FPConst(math.Floor(a.F), a.S)
		}
	}
	return tt.mk("fp.roundToIntegral", a.S, [2]int{mode + 1, 0}, a)
}

func (tt *TermTable) FSqrt(a *Term) *Term {
	if a.Const {
		return tt.FPConst(tt.fround(math.Sqrt(a.F), a.S), a.S)
	}
	return tt.mk("fp.sqrt", a.S, [2]int{}, a)
}

// IntToFP: signed/unsigned BV -> FP (RNE)
func (tt *TermTable) IntToFP(a *Term, signed bool, s Sort) *Term {
	if a.Const {
		var f float64
		if signed {
			v := sext(a.U, a.S.W)
			if s.K == SFP32 {
				f = float64(float32(v))
			} else {
				f = float64(v)
			}
		} else {
			if s.K == SFP32 {
				f = float64(float32(a.U))
			} else {
				f = float64(a.U)
			}
		}
		return tt.FPConst(f, s)
	}
	// conversion of an extended narrower integer: convert the narrow operand (same value)
	if signed && a.Op == "sign_extend" {
		return tt.IntToFP(a.Args[0], true, s)
	}
	if a.Op == "zero_extend" {
		return tt.IntToFP(a.Args[0], false, s)
	}
	op := "to_fp_s"
	if !signed {
		op = "to_fp_u"
	}
	return tt.mk(op, s, [2]int{}, a)
}

// FPToInt: FP -> BV (RTZ). For out-of-range the SMT result is unspecified; callers must guard.
func (tt *TermTable) FPToInt(a *Term, signed bool, w int) *Term {
	if a.Const {
		f := a.F
		if f == f && !math.IsInf(f, 0) {
			tf := math.Trunc(f)
			if signed {
				if tf >= -9.3e18 && tf <= 9.2e18 {
					v := int64(tf)
					if w >= 64 || (v >= -(int64(1)<<uint(w-1)) && v < (int64(1)<<uint(w-1))) {
						return tt.BVConst(uint64(v), w)
					}
				}
			} else if tf >= 0 && tf < 1.8e19 {
				v := uint64(tf)
				if w >= 64 || v <= mask(w) {
					return tt.BVConst(v, w)
				}
			}
		}
	}
	op := "fp.to_sbv"
	if !signed {
		op = "fp.to_ubv"
	}
	return tt.mk(op, BV(w), [2]int{w, 0}, a)
}

// FPToFP converts between float widths (RNE)
func (tt *TermTable) FPToFP(a *Term, s Sort) *Term {
	if a.S == s {
		return a
	}
	if a.Const {
		return tt.FPConst(a.F, s)
	}
	return tt.mk("fp.to_fp", s, [2]int{}, a)
}

// FPFromBits reinterprets a BV as FP
func (tt *TermTable) FPFromBits(a *Term, s Sort) *Term {
	if a.Const {
		if s.K == SFP32 {
			return tt.FPConst(float64(math.Float32frombits(uint32(a.U))), s)
		}
		return tt.FPConst(math.Float64frombits(a.U), s)
	}
	return tt.mk("fp.from_bits", s, [2]int{}, a)
}

// ---------- SMT-LIB printing ----------

func bvLit(u uint64, w int) string {
	if w%4 == 0 {
		return fmt.Sprintf("#x%0*x", w/4, u)
	}
	return fmt.Sprintf("#b%0*b", w, u)
}

func fpLit(f float64, s Sort) string {
	if s.K == SFP32 {
		b := math.Float32bits(float32(f))
		if f != f {
			return "(_ NaN 8 24)"
		}
		return fmt.Sprintf("(fp #b%01b #b%08b #b%023b)", b>>31, (b>>23)&0xff, b&0x7fffff)
	}
	if f != f {
		return "(_ NaN 11 53)"
	}
	b := math.Float64bits(f)
	return fmt.Sprintf("(fp #b%01b #b%011b #b%052b)", b>>63, (b>>52)&0x7ff, b&((1<<52)-1))
}

var rmodes = []string{"", "RNE", "RTZ", "RTP", "RTN"}

func (t *Term) head() string {
	switch t.Op {
	case "extract":
		return fmt.Sprintf("(_ extract %d %d)", t.P[0], t.P[1])
	case "zero_extend":
		return fmt.Sprintf("(_ zero_extend %d)", t.P[0])
	case "sign_extend":
		return fmt.Sprintf("(_ sign_extend %d)", t.P[0])
	case "fp.add", "fp.sub", "fp.mul", "fp.div", "fp.sqrt":
		return t.Op + " RNE"
	case "fp.roundToIntegral":
		return "fp.roundToIntegral " + rmodes[t.P[0]]
	case "to_fp_s":
		if t.S.K == SFP32 {
			return "(_ to_fp 8 24) RNE"
		}
		return "(_ to_fp 11 53) RNE"
	case "to_fp_u":
		if t.S.K == SFP32 {
			return "(_ to_fp_unsigned 8 24) RNE"
		}
		return "(_ to_fp_unsigned 11 53) RNE"
	case "fp.to_fp":
		if t.S.K == SFP32 {
			return "(_ to_fp 8 24) RNE"
		}
		return "(_ to_fp 11 53) RNE"
	case "fp.from_bits":
		if t.S.K == SFP32 {
			return "(_ to_fp 8 24)"
		}
		return "(_ to_fp 11 53)"
	case "fp.to_sbv":
		return fmt.Sprintf("(_ fp.to_sbv %d) RTZ", t.P[0])
	case "fp.to_ubv":
		return fmt.Sprintf("(_ fp.to_ubv %d) RTZ", t.P[0])
	}
	return t.Op
}

// SMT renders the term with let-bindings for shared subterms.
func (tt *TermTable) SMT(root *Term) string {
	// count references
	refs := map[*Term]int{}
	var order []*Term
	var walk func(t *Term)
	walk = func(t *Term) {
		refs[t]++
		if refs[t] > 1 {
			return
		}
		for _, a := range t.Args {
			walk(a)
		}
		order = append(order, t) // post-order
	}
	walk(root)
	names := map[*Term]string{}
	var render func(t *Term) string
	render = func(t *Term) string {
		if n, ok := names[t]; ok {
			return n
		}
		switch t.Op {
		case "const":
			switch t.S.K {
			case SBool:
				if t.U == 1 {
					return "true"
				}
				return "false"
			case SBV:
				return bvLit(t.U, t.S.W)
			default:
				return fpLit(t.F, t.S)
			}
		case "var":
			return "|" + t.Name + "|"
		}
		var sb strings.Builder
		sb.WriteByte('(')
		sb.WriteString(t.head())
		for _, a := range t.Args {
			sb.WriteByte(' ')
			sb.WriteString(render(a))
		}
		sb.WriteByte(')')
		return sb.String()
	}
	var sb strings.Builder
	nlets := 0
	for _, t := range order {
		if t == root || refs[t] < 2 || len(t.Args) == 0 {
			continue
		}
		body := render(t)
		name := "l!" + strconv.Itoa(t.id)
		sb.WriteString("(let ((" + name + " " + body + ")) ")
		names[t] = name
		nlets++
	}
	sb.WriteString(render(root))
	sb.WriteString(strings.Repeat(")", nlets))
	return sb.String()
}

// ---------- evaluation under a model ----------

type Model map[string]*Term // var name -> const term

func (tt *TermTable) Eval(t *Term, m Model, cache map[*Term]*Term) *Term {
	if t.Const {
		return t
	}
	if r, ok := cache[t]; ok {
		return r
	}
	var r *Term
	if t.Op == "var" {
		if v, ok := m[t.Name]; ok {
			r = v
		} else {
			switch t.S.K {
			case SBool:
				r = tt.Bool(false)
			case SBV:
				r = tt.BVConst(0, t.S.W)
			default:
				r = tt.FPConst(0, t.S)
			}
		}
		cache[t] = r
		return r
	}
	args := make([]*Term, len(t.Args))
	for i, a := range t.Args {
		args[i] = tt.Eval(a, m, cache)
	}
	r = tt.rebuild(t, args)
	cache[t] = r
	return r
}

func (tt *TermTable) rebuild(t *Term, a []*Term) *Term {
	switch t.Op {
	case "not":
		return tt.Not(a[0])
	case "and":
		return tt.And(a[0], a[1])
	case "or":
		return tt.Or(a[0], a[1])
	case "ite":
		return tt.Ite(a[0], a[1], a[2])
	case "=":
		if isFP(a[0].S) && a[0].Const && a[1].Const {
			x, y := a[0].F, a[1].F
			return tt.Bool((x != x && y != y) || (x == y && math.Signbit(x) == math.Signbit(y)))
		}
		return tt.Eq(a[0], a[1])
	case "bvadd", "bvsub", "bvmul", "bvand", "bvor", "bvxor", "bvudiv", "bvurem", "bvsdiv", "bvsrem", "bvshl", "bvlshr", "bvashr":
		return tt.bin(t.Op, a[0], a[1])
	case "bvneg":
		return tt.Neg(a[0])
	case "bvnot":
		return tt.BNot(a[0])
	case "bvult", "bvule", "bvslt", "bvsle":
		return tt.cmp(t.Op, a[0], a[1])
	case "extract":
		return tt.Extract(a[0], t.P[0], t.P[1])
	case "zero_extend":
		return tt.ZExt(a[0], t.S.W)
	case "sign_extend":
		return tt.SExt(a[0], t.S.W)
	case "fp.add", "fp.sub", "fp.mul", "fp.div":
		return tt.FBin(t.Op, a[0], a[1])
	case "fp.lt", "fp.leq", "fp.eq":
		return tt.FCmp(t.Op, a[0], a[1])
	case "fp.neg":
		return tt.FNeg(a[0])
	case "fp.abs":
		return tt.FAbs(a[0])
	case "fp.isNaN":
		return tt.FIsNaN(a[0])
	case "fp.isInfinite":
		return tt.FIsInf(a[0])
	case "fp.roundToIntegral":
		return tt.FRound(a[0], t.P[0]-1)
	case "fp.sqrt":
		return tt.FSqrt(a[0])
	case "to_fp_s":
		return tt.IntToFP(a[0], true, t.S)
	case "to_fp_u":
		return tt.IntToFP(a[0], false, t.S)
	case "fp.to_sbv":
		return tt.FPToInt(a[0], true, t.S.W)
	case "fp.to_ubv":
		return tt.FPToInt(a[0], false, t.S.W)
	case "fp.to_fp":
		return tt.FPToFP(a[0], t.S)
	case "fp.from_bits":
		return tt.FPFromBits(a[0], t.S)
	}
	panic("rebuild: unknown op " + t.Op)
}

// CollectVars returns the variables occurring in t.
func CollectVars(t *Term, seen map[*Term]bool, out *[]*Term) {
	if seen[t] {
		return
	}
	seen[t] = true
	if t.Op == "var" {
		*out = append(*out, t)
		return
	}
	for _, a := range t.Args {
		CollectVars(a, seen, out)
	}
}

func sortTermsByName(ts []*Term) {
	sort.Slice(ts, func(i, j int) bool { return ts[i].Name < ts[j].Name })
}

var _ = bits.Len

// HasFP reports whether t contains floating-point operations (memoised per table).
func (tt *TermTable) HasFP(t *Term) bool {
	if tt.fpMemo == nil {
		tt.fpMemo = map[*Term]bool{}
	}
	if v, ok := tt.fpMemo[t]; ok {
		return v
	}
	r := isFP(t.S)
	if !r {
		for _, a := range t.Args {
			if tt.HasFP(a) {
				r = true
				break
			}
		}
	}
	tt.fpMemo[t] = r
	return r
}
