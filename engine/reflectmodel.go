package main

import (
	"fmt"
	"go/types"
	"regexp"

	"golang.org/x/tools/go/ssa"
)

// ReflT models a reflect.Type (carried inside an IfaceV whose dynamic type is *reflect.rtype).
type ReflT struct{ t types.Type }

// ModelFn is a callable value implemented by the interpreter.
type ModelFn struct {
	name string
	f    func(e *Exec, args []Value) Value
}

func kindOf(t types.Type) int {
	switch u := t.Underlying().(type) {
	case *types.Basic:
		switch u.Kind() {
		case types.Bool:
			return 1
		case types.Int:
			return 2
		case types.Int8:
			return 3
		case types.Int16:
			return 4
		case types.Int32:
			return 5
		case types.Int64:
			return 6
		case types.Uint:
			return 7
		case types.Uint8:
			return 8
		case types.Uint16:
			return 9
		case types.Uint32:
			return 10
		case types.Uint64:
			return 11
		case types.Uintptr:
			return 12
		case types.Float32:
			return 13
		case types.Float64:
			return 14
		case types.Complex64:
			return 15
		case types.Complex128:
			return 16
		case types.String:
			return 24
		case types.UnsafePointer:
			return 26
		}
	case *types.Array:
		return 17
	case *types.Chan:
		return 18
	case *types.Signature:
		return 19
	case *types.Interface:
		return 20
	case *types.Map:
		return 21
	case *types.Pointer:
		return 22
	case *types.Slice:
		return 23
	case *types.Struct:
		return 25
	}
	return 0
}

func (e *Exec) reflTypeVal(t types.Type) Value {
	pkg := e.P.prog.ImportedPackage("reflect")
	if pkg == nil {
		e.unsupported("reflect package not loaded")
	}
	rt := pkg.Type("rtype")
	return IfaceV{t: types.NewPointer(rt.Type()), v: ReflT{t}}
}

func (e *Exec) reflValueOf(v Value) ReflV {
	iv, ok := v.(IfaceV)
	if !ok {
		e.unsupported(fmt.Sprintf("reflect.ValueOf on %T", v))
	}
	if iv.t == nil {
		return ReflV{}
	}
	return ReflV{valid: true, t: iv.t, v: iv.v}
}

func (e *Exec) reflIsNil(r ReflV) *Term {
	switch x := r.v.(type) {
	case PtrV:
		return e.tt.Bool(x.obj == nil)
	case MapV:
		return e.tt.Bool(x.obj == nil)
	case ChanV:
		return e.tt.Bool(x.obj == nil)
	case SliceV:
		return e.tt.Bool(x.arr == nil)
	case NilFunc:
		return e.tt.Bool(true)
	case *ssa.Function, *ClosureV:
		return e.tt.Bool(false)
	case IfaceV:
		return e.tt.Bool(x.t == nil)
	}
	e.runtimePanic("reflect: call of reflect.Value.IsNil on " + r.t.String() + " Value")
	return nil
}

func (e *Exec) reflectMethod(rt ReflT, name string) *ModelFn {
	return &ModelFn{name: "reflect.Type." + name, f: func(e *Exec, args []Value) Value {
		t := rt.t
		switch name {
		case "Kind":
			return e.tt.BVConst(uint64(kindOf(t)), 64)
		case "Elem":
			switch u := t.Underlying().(type) {
			case *types.Pointer:
				return e.reflTypeVal(u.Elem())
			case *types.Slice:
				return e.reflTypeVal(u.Elem())
			case *types.Array:
				return e.reflTypeVal(u.Elem())
			case *types.Map:
				return e.reflTypeVal(u.Elem())
			case *types.Chan:
				return e.reflTypeVal(u.Elem())
			}
			e.runtimePanic("reflect: Elem of invalid type " + t.String())
		case "Key":
			if m, ok := t.Underlying().(*types.Map); ok {
				return e.reflTypeVal(m.Key())
			}
			e.runtimePanic("reflect: Key of non-map type " + t.String())
		case "String":
			return StrV{s: types.TypeString(t, func(p *types.Package) string { return p.Name() })}
		case "Name":
			if n, ok := t.(*types.Named); ok {
				return StrV{s: n.Obj().Name()}
			}
			if b, ok := t.(*types.Basic); ok {
				return StrV{s: b.Name()}
			}
			return StrV{}
		case "NumField":
			if s, ok := t.Underlying().(*types.Struct); ok {
				return e.tt.BVConst(uint64(s.NumFields()), 64)
			}
		case "NumMethod":
			return e.tt.BVConst(uint64(types.NewMethodSet(t).Len()), 64)
		case "Comparable":
			return e.tt.Bool(types.Comparable(t))
		case "AssignableTo", "ConvertibleTo":
			if len(args) == 1 {
				if iv, ok := args[0].(IfaceV); ok {
					if ot, ok := iv.v.(ReflT); ok {
						if name == "AssignableTo" {
							return e.tt.Bool(types.AssignableTo(t, ot.t))
						}
						return e.tt.Bool(types.ConvertibleTo(t, ot.t))
					}
				}
			}
		}
		e.unsupported("reflect.Type." + name)
		return nil
	}}
}

func (e *Exec) deepEqual(a, b Value, t types.Type, depth int) *Term {
	tt := e.tt
	if depth > 8 {
		e.unsupported("reflect.DeepEqual nesting too deep")
	}
	switch x := a.(type) {
	case IfaceV:
		y := b.(IfaceV)
		if x.t == nil || y.t == nil {
			return tt.Bool(x.t == nil && y.t == nil)
		}
		if !types.Identical(x.t, y.t) {
			return tt.Bool(false)
		}
		return e.deepEqual(x.v, y.v, x.t, depth+1)
	case SliceV:
		y := b.(SliceV)
		if (x.arr == nil) != (y.arr == nil) {
			return tt.Bool(false)
		}
		if x.len != y.len {
			return tt.Bool(false)
		}
		et := t.Underlying().(*types.Slice).Elem()
		xs, ys := e.sliceElems(x), e.sliceElems(y)
		r := tt.Bool(true)
		for i := range xs {
			r = tt.And(r, e.deepEqual(xs[i], ys[i], et, depth+1))
		}
		return r
	case MapV:
		y := b.(MapV)
		if (x.obj == nil) != (y.obj == nil) {
			return tt.Bool(false)
		}
		if x.obj == nil {
			return tt.Bool(true)
		}
		if x.obj == y.obj {
			return tt.Bool(true)
		}
		mx, my := x.obj.val.(*MapData), y.obj.val.(*MapData)
		if mx.n != my.n {
			return tt.Bool(false)
		}
		mt := t.Underlying().(*types.Map)
		r := tt.Bool(true)
		for i := range mx.keys {
			if mx.dead[i] {
				continue
			}
			v2, ok := e.mapGet(y, mx.keys[i])
			if !ok {
				return tt.Bool(false)
			}
			r = tt.And(r, e.deepEqual(mx.vals[i], v2, mt.Elem(), depth+1))
		}
		return r
	case PtrV:
		y := b.(PtrV)
		if x.obj == y.obj && samePath(x.path, y.path) {
			return tt.Bool(true)
		}
		if x.obj == nil || y.obj == nil {
			return tt.Bool(false)
		}
		pt, ok := t.Underlying().(*types.Pointer)
		if !ok {
			return tt.Bool(false)
		}
		return e.deepEqual(e.load(x), e.load(y), pt.Elem(), depth+1)
	case StructV:
		y := b.(StructV)
		st := t.Underlying().(*types.Struct)
		r := tt.Bool(true)
		for i := range x {
			r = tt.And(r, e.deepEqual(x[i], y[i], st.Field(i).Type(), depth+1))
		}
		return r
	case ArrayV:
		y := b.(ArrayV)
		at := t.Underlying().(*types.Array)
		r := tt.Bool(true)
		for i := range x {
			r = tt.And(r, e.deepEqual(x[i], y[i], at.Elem(), depth+1))
		}
		return r
	case *ssa.Function, *ClosureV:
		return tt.Bool(false)
	}
	return e.valEq(a, b, t)
}

func init() {
	I := intrinsics
	I["reflect.ValueOf"] = func(e *Exec, fn *ssa.Function, a []Value, c *Frame) Value { return e.reflValueOf(a[0]) }
	I["reflect.TypeOf"] = func(e *Exec, fn *ssa.Function, a []Value, c *Frame) Value {
		iv := a[0].(IfaceV)
		if iv.t == nil {
			return IfaceV{}
		}
		return e.reflTypeVal(iv.t)
	}
	I["reflect.DeepEqual"] = func(e *Exec, fn *ssa.Function, a []Value, c *Frame) Value {
		return e.deepEqual(a[0], a[1], nil, 0)
	}
	I["reflect.Indirect"] = func(e *Exec, fn *ssa.Function, a []Value, c *Frame) Value {
		r := a[0].(ReflV)
		if p, ok := r.v.(PtrV); ok && r.valid {
			if pt, ok := r.t.Underlying().(*types.Pointer); ok {
				if p.obj == nil {
					return ReflV{}
				}
				return ReflV{valid: true, t: pt.Elem(), v: e.load(p)}
			}
		}
		return r
	}
	I["reflect.Zero"] = func(e *Exec, fn *ssa.Function, a []Value, c *Frame) Value {
		iv := a[0].(IfaceV)
		rt := iv.v.(ReflT)
		return ReflV{valid: true, t: rt.t, v: e.zero(rt.t)}
	}
	I["(reflect.Value).Kind"] = func(e *Exec, fn *ssa.Function, a []Value, c *Frame) Value {
		r := a[0].(ReflV)
		if !r.valid {
			return e.tt.BVConst(0, 64)
		}
		return e.tt.BVConst(uint64(kindOf(r.t)), 64)
	}
	I["(reflect.Value).IsValid"] = func(e *Exec, fn *ssa.Function, a []Value, c *Frame) Value {
		return e.tt.Bool(a[0].(ReflV).valid)
	}
	I["(reflect.Value).IsNil"] = func(e *Exec, fn *ssa.Function, a []Value, c *Frame) Value {
		r := a[0].(ReflV)
		if !r.valid {
			e.runtimePanic("reflect: call of reflect.Value.IsNil on zero Value")
		}
		return e.reflIsNil(r)
	}
	I["(reflect.Value).IsZero"] = func(e *Exec, fn *ssa.Function, a []Value, c *Frame) Value {
		r := a[0].(ReflV)
		if !r.valid {
			e.runtimePanic("reflect: call of reflect.Value.IsZero on zero Value")
		}
		return e.deepEqual(r.v, e.zero(r.t), r.t, 0)
	}
	I["(reflect.Value).Interface"] = func(e *Exec, fn *ssa.Function, a []Value, c *Frame) Value {
		r := a[0].(ReflV)
		if !r.valid {
			e.runtimePanic("reflect: call of reflect.Value.Interface on zero Value")
		}
		if _, isI := r.t.Underlying().(*types.Interface); isI {
			return r.v
		}
		return IfaceV{t: r.t, v: r.v}
	}
	I["(reflect.Value).CanInterface"] = func(e *Exec, fn *ssa.Function, a []Value, c *Frame) Value {
		return e.tt.Bool(a[0].(ReflV).valid)
	}
	I["(reflect.Value).Type"] = func(e *Exec, fn *ssa.Function, a []Value, c *Frame) Value {
		r := a[0].(ReflV)
		if !r.valid {
			e.runtimePanic("reflect: call of reflect.Value.Type on zero Value")
		}
		return e.reflTypeVal(r.t)
	}
	I["(reflect.Value).Elem"] = func(e *Exec, fn *ssa.Function, a []Value, c *Frame) Value {
		r := a[0].(ReflV)
		switch u := r.t.Underlying().(type) {
		case *types.Pointer:
			p := r.v.(PtrV)
			if p.obj == nil {
				return ReflV{}
			}
			return ReflV{valid: true, t: u.Elem(), v: e.load(p)}
		case *types.Interface:
			iv := r.v.(IfaceV)
			if iv.t == nil {
				return ReflV{}
			}
			return ReflV{valid: true, t: iv.t, v: iv.v}
		}
		e.runtimePanic("reflect: call of reflect.Value.Elem on " + r.t.String() + " Value")
		return nil
	}
	I["(reflect.Value).Len"] = func(e *Exec, fn *ssa.Function, a []Value, c *Frame) Value {
		r := a[0].(ReflV)
		switch x := r.v.(type) {
		case SliceV:
			return e.tt.BVConst(uint64(x.len), 64)
		case StrV:
			return e.tt.BVConst(uint64(x.Len()), 64)
		case ArrayV:
			return e.tt.BVConst(uint64(len(x)), 64)
		case MapV:
			if x.obj == nil {
				return e.tt.BVConst(0, 64)
			}
			return e.tt.BVConst(uint64(x.obj.val.(*MapData).n), 64)
		case ChanV:
			if x.obj == nil {
				return e.tt.BVConst(0, 64)
			}
			return e.tt.BVConst(uint64(len(x.obj.val.(*ChanData).buf)), 64)
		}
		e.runtimePanic("reflect: call of reflect.Value.Len on " + r.t.String() + " Value")
		return nil
	}
	I["(reflect.Value).Index"] = func(e *Exec, fn *ssa.Function, a []Value, c *Frame) Value {
		r := a[0].(ReflV)
		i := argInt(e, a[1], "reflect.Value.Index")
		switch x := r.v.(type) {
		case SliceV:
			if i < 0 || i >= x.len {
				e.runtimePanic("reflect: slice index out of range")
			}
			et := r.t.Underlying().(*types.Slice).Elem()
			return ReflV{valid: true, t: et, v: e.sliceElems(x)[i]}
		case ArrayV:
			if i < 0 || i >= len(x) {
				e.runtimePanic("reflect: array index out of range")
			}
			return ReflV{valid: true, t: r.t.Underlying().(*types.Array).Elem(), v: x[i]}
		case StrV:
			if i < 0 || i >= x.Len() {
				e.runtimePanic("reflect: string index out of range")
			}
			return ReflV{valid: true, t: types.Typ[types.Uint8], v: e.strBytes(x)[i]}
		}
		e.runtimePanic("reflect: call of reflect.Value.Index on " + r.t.String() + " Value")
		return nil
	}
	I["(reflect.Value).MapIndex"] = func(e *Exec, fn *ssa.Function, a []Value, c *Frame) Value {
		r := a[0].(ReflV)
		k := a[1].(ReflV)
		m, ok := r.v.(MapV)
		if !ok {
			e.runtimePanic("reflect: call of reflect.Value.MapIndex on " + r.t.String() + " Value")
		}
		mt := r.t.Underlying().(*types.Map)
		kv := k.v
		if _, isI := mt.Key().Underlying().(*types.Interface); isI {
			kv = IfaceV{t: k.t, v: k.v}
		} else if !types.AssignableTo(k.t, mt.Key()) {
			e.runtimePanic("reflect.Value.MapIndex: value of type " + k.t.String() + " is not assignable to type " + mt.Key().String())
		}
		v, found := e.mapGet(m, kv)
		if !found {
			return ReflV{}
		}
		return ReflV{valid: true, t: mt.Elem(), v: v}
	}
	I["(reflect.Value).MapKeys"] = func(e *Exec, fn *ssa.Function, a []Value, c *Frame) Value {
		r := a[0].(ReflV)
		m := r.v.(MapV)
		mt := r.t.Underlying().(*types.Map)
		var vals []Value
		if m.obj != nil {
			md := m.obj.val.(*MapData)
			for i := range md.keys {
				if !md.dead[i] {
					vals = append(vals, ReflV{valid: true, t: mt.Key(), v: md.keys[i]})
				}
			}
		}
		return e.sliceFrom(fn.Signature.Results().At(0).Type().Underlying().(*types.Slice).Elem(), vals)
	}
	I["(reflect.Value).NumField"] = func(e *Exec, fn *ssa.Function, a []Value, c *Frame) Value {
		r := a[0].(ReflV)
		st, ok := r.t.Underlying().(*types.Struct)
		if !ok {
			e.runtimePanic("reflect: call of reflect.Value.NumField on " + r.t.String() + " Value")
		}
		return e.tt.BVConst(uint64(st.NumFields()), 64)
	}
	I["(reflect.Value).NumMethod"] = func(e *Exec, fn *ssa.Function, a []Value, c *Frame) Value {
		r := a[0].(ReflV)
		if !r.valid {
			e.runtimePanic("reflect: call of reflect.Value.NumMethod on zero Value")
		}
		n := 0
		ms := types.NewMethodSet(r.t)
		for i := 0; i < ms.Len(); i++ {
			if ms.At(i).Obj().Exported() {
				n++
			}
		}
		return e.tt.BVConst(uint64(n), 64)
	}
	I["(reflect.Value).FieldByName"] = func(e *Exec, fn *ssa.Function, a []Value, c *Frame) Value {
		r := a[0].(ReflV)
		name := argStr(e, a[1], "FieldByName")
		st, ok := r.t.Underlying().(*types.Struct)
		if !ok {
			e.runtimePanic("reflect: call of reflect.Value.FieldByName on " + r.t.String() + " Value")
		}
		for i := 0; i < st.NumFields(); i++ {
			if st.Field(i).Name() == name {
				if isTimeType(r.t) {
					break
				}
				return ReflV{valid: true, t: st.Field(i).Type(), v: r.v.(StructV)[i]}
			}
		}
		return ReflV{}
	}
	I["(reflect.Value).Field"] = func(e *Exec, fn *ssa.Function, a []Value, c *Frame) Value {
		r := a[0].(ReflV)
		i := argInt(e, a[1], "Field")
		st := r.t.Underlying().(*types.Struct)
		return ReflV{valid: true, t: st.Field(i).Type(), v: r.v.(StructV)[i]}
	}
	I["(reflect.Value).Int"] = func(e *Exec, fn *ssa.Function, a []Value, c *Frame) Value {
		r := a[0].(ReflV)
		k := kindOf(r.t)
		if k < 2 || k > 6 {
			e.runtimePanic("reflect: call of reflect.Value.Int on " + r.t.String() + " Value")
		}
		return e.tt.SExt(r.v.(*Term), 64)
	}
	I["(reflect.Value).Uint"] = func(e *Exec, fn *ssa.Function, a []Value, c *Frame) Value {
		r := a[0].(ReflV)
		k := kindOf(r.t)
		if k < 7 || k > 12 {
			e.runtimePanic("reflect: call of reflect.Value.Uint on " + r.t.String() + " Value")
		}
		return e.tt.ZExt(r.v.(*Term), 64)
	}
	I["(reflect.Value).Float"] = func(e *Exec, fn *ssa.Function, a []Value, c *Frame) Value {
		r := a[0].(ReflV)
		k := kindOf(r.t)
		if k != 13 && k != 14 {
			e.runtimePanic("reflect: call of reflect.Value.Float on " + r.t.String() + " Value")
		}
		return e.tt.FPToFP(r.v.(*Term), FP64Sort)
	}
	I["(reflect.Value).Bool"] = func(e *Exec, fn *ssa.Function, a []Value, c *Frame) Value {
		r := a[0].(ReflV)
		if kindOf(r.t) != 1 {
			e.runtimePanic("reflect: call of reflect.Value.Bool on " + r.t.String() + " Value")
		}
		return r.v
	}
	I["(reflect.Value).String"] = func(e *Exec, fn *ssa.Function, a []Value, c *Frame) Value {
		r := a[0].(ReflV)
		if r.valid && kindOf(r.t) == 24 {
			return r.v
		}
		if !r.valid {
			return StrV{s: "<invalid Value>"}
		}
		return StrV{s: "<" + r.t.String() + " Value>"}
	}
	I["(reflect.Value).Pointer"] = func(e *Exec, fn *ssa.Function, a []Value, c *Frame) Value {
		r := a[0].(ReflV)
		id := func(o *Obj) Value {
			if o == nil {
				return e.tt.BVConst(0, 64)
			}
			return e.tt.BVConst(uint64(0xc000000000)+uint64(o.id)*64, 64)
		}
		switch x := r.v.(type) {
		case PtrV:
			return id(x.obj)
		case MapV:
			return id(x.obj)
		case ChanV:
			return id(x.obj)
		case SliceV:
			return id(x.arr)
		}
		e.runtimePanic("reflect: call of reflect.Value.Pointer on " + r.t.String() + " Value")
		return nil
	}
	I["(reflect.Kind).String"] = func(e *Exec, fn *ssa.Function, a []Value, c *Frame) Value {
		names := []string{"invalid", "bool", "int", "int8", "int16", "int32", "int64", "uint", "uint8", "uint16", "uint32", "uint64", "uintptr", "float32", "float64", "complex64", "complex128", "array", "chan", "func", "interface", "map", "ptr", "slice", "string", "struct", "unsafe.Pointer"}
		k := argInt(e, a[0], "Kind.String")
		if k >= 0 && k < len(names) {
			return StrV{s: names[k]}
		}
		return StrV{s: "kind?"}
	}

	// ---- regexp: native call-outs on concrete strings ----
	I["regexp.MustCompile"] = func(e *Exec, fn *ssa.Function, a []Value, c *Frame) Value {
		return NativeV{regexp.MustCompile(argStr(e, a[0], "regexp.MustCompile"))}
	}
	I["regexp.Compile"] = func(e *Exec, fn *ssa.Function, a []Value, c *Frame) Value {
		re, err := regexp.Compile(argStr(e, a[0], "regexp.Compile"))
		if err != nil {
			return TupleV{PtrV{}, e.mkError(err.Error())}
		}
		return TupleV{NativeV{re}, IfaceV{}}
	}
	I["regexp.MatchString"] = func(e *Exec, fn *ssa.Function, a []Value, c *Frame) Value {
		ok, err := regexp.MatchString(argStr(e, a[0], "regexp.MatchString"), argStr(e, a[1], "regexp.MatchString"))
		if err != nil {
			return TupleV{e.tt.Bool(false), e.mkError(err.Error())}
		}
		return TupleV{e.tt.Bool(ok), IfaceV{}}
	}
	I["regexp.QuoteMeta"] = func(e *Exec, fn *ssa.Function, a []Value, c *Frame) Value {
		return StrV{s: regexp.QuoteMeta(argStr(e, a[0], "regexp.QuoteMeta"))}
	}
	re := func(a []Value) *regexp.Regexp { return a[0].(NativeV).v.(*regexp.Regexp) }
	I["(*regexp.Regexp).MatchString"] = func(e *Exec, fn *ssa.Function, a []Value, c *Frame) Value {
		return e.tt.Bool(re(a).MatchString(argStr(e, a[1], "Regexp.MatchString")))
	}
	I["(*regexp.Regexp).FindStringSubmatch"] = func(e *Exec, fn *ssa.Function, a []Value, c *Frame) Value {
		return e.fromNative(re(a).FindStringSubmatch(argStr(e, a[1], "Regexp.FindStringSubmatch")))
	}
	I["(*regexp.Regexp).FindString"] = func(e *Exec, fn *ssa.Function, a []Value, c *Frame) Value {
		return StrV{s: re(a).FindString(argStr(e, a[1], "Regexp.FindString"))}
	}
	I["(*regexp.Regexp).FindAllString"] = func(e *Exec, fn *ssa.Function, a []Value, c *Frame) Value {
		return e.fromNative(re(a).FindAllString(argStr(e, a[1], "Regexp.FindAllString"), argInt(e, a[2], "FindAllString")))
	}
	I["(*regexp.Regexp).FindStringIndex"] = func(e *Exec, fn *ssa.Function, a []Value, c *Frame) Value {
		return e.fromNativeInts(re(a).FindStringIndex(argStr(e, a[1], "Regexp.FindStringIndex")))
	}
	I["(*regexp.Regexp).FindStringSubmatchIndex"] = func(e *Exec, fn *ssa.Function, a []Value, c *Frame) Value {
		return e.fromNativeInts(re(a).FindStringSubmatchIndex(argStr(e, a[1], "Regexp.FindStringSubmatchIndex")))
	}
	I["(*regexp.Regexp).FindAllStringSubmatch"] = func(e *Exec, fn *ssa.Function, a []Value, c *Frame) Value {
		res := re(a).FindAllStringSubmatch(argStr(e, a[1], "FindAllStringSubmatch"), argInt(e, a[2], "FindAllStringSubmatch"))
		if res == nil {
			return SliceV{}
		}
		vals := make([]Value, len(res))
		for i, r := range res {
			vals[i] = e.fromNative(r)
		}
		return e.sliceFrom(types.NewSlice(types.Typ[types.String]), vals)
	}
	I["(*regexp.Regexp).FindAllStringSubmatchIndex"] = func(e *Exec, fn *ssa.Function, a []Value, c *Frame) Value {
		res := re(a).FindAllStringSubmatchIndex(argStr(e, a[1], "FindAllStringSubmatchIndex"), argInt(e, a[2], "FindAllStringSubmatchIndex"))
		if res == nil {
			return SliceV{}
		}
		vals := make([]Value, len(res))
		for i, r := range res {
			vals[i] = e.fromNativeInts(r)
		}
		return e.sliceFrom(types.NewSlice(types.Typ[types.Int]), vals)
	}
	I["(*regexp.Regexp).FindAllStringIndex"] = func(e *Exec, fn *ssa.Function, a []Value, c *Frame) Value {
		res := re(a).FindAllStringIndex(argStr(e, a[1], "FindAllStringIndex"), argInt(e, a[2], "FindAllStringIndex"))
		if res == nil {
			return SliceV{}
		}
		vals := make([]Value, len(res))
		for i, r := range res {
			vals[i] = e.fromNativeInts(r)
		}
		return e.sliceFrom(types.NewSlice(types.Typ[types.Int]), vals)
	}
	I["(*regexp.Regexp).ReplaceAllString"] = func(e *Exec, fn *ssa.Function, a []Value, c *Frame) Value {
		return StrV{s: re(a).ReplaceAllString(argStr(e, a[1], "ReplaceAllString"), argStr(e, a[2], "ReplaceAllString"))}
	}
	I["(*regexp.Regexp).Split"] = func(e *Exec, fn *ssa.Function, a []Value, c *Frame) Value {
		return e.fromNative(re(a).Split(argStr(e, a[1], "Regexp.Split"), argInt(e, a[2], "Regexp.Split")))
	}
	I["(*regexp.Regexp).ReplaceAllStringFunc"] = func(e *Exec, fn *ssa.Function, a []Value, c *Frame) Value {
		src := argStr(e, a[1], "ReplaceAllStringFunc")
		out := re(a).ReplaceAllStringFunc(src, func(m string) string {
			r := e.callFunction(a[2], []Value{StrV{s: m}})
			return argStr(e, r, "ReplaceAllStringFunc callback result")
		})
		return StrV{s: out}
	}
	I["(*regexp.Regexp).String"] = func(e *Exec, fn *ssa.Function, a []Value, c *Frame) Value {
		return StrV{s: re(a).String()}
	}
	I["(*regexp.Regexp).NumSubexp"] = func(e *Exec, fn *ssa.Function, a []Value, c *Frame) Value {
		return e.tt.BVConst(uint64(re(a).NumSubexp()), 64)
	}
}

func (e *Exec) fromNativeInts(xs []int) Value {
	if xs == nil {
		return SliceV{}
	}
	vals := make([]Value, len(xs))
	for i, x := range xs {
		vals[i] = e.tt.BVConst(uint64(int64(x)), 64)
	}
	return e.sliceFrom(types.Typ[types.Int], vals)
}
