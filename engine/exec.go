package main

import (
	"fmt"
	"go/constant"
	"go/token"
	"go/types"
	"math"
	"sort"
	"strings"
	"sync"

	"golang.org/x/tools/go/ssa"
)

// ---------- shared, read-only program info ----------

type FnInfo struct {
	idx   map[ssa.Value]int
	nregs int
}

type Program struct {
	prog      *ssa.Program
	pkgs      map[string]*ssa.Package
	fnInfo    sync.Map // *ssa.Function -> *FnInfo
	intrCache sync.Map
	methMu    sync.Mutex
	repoMod   string
}

func (p *Program) info(fn *ssa.Function) *FnInfo {
	if v, ok := p.fnInfo.Load(fn); ok {
		return v.(*FnInfo)
	}
	fi := &FnInfo{idx: map[ssa.Value]int{}}
	n := 0
	for _, x := range fn.Params {
		fi.idx[x] = n
		n++
	}
	for _, x := range fn.FreeVars {
		fi.idx[x] = n
		n++
	}
	for _, b := range fn.Blocks {
		for _, ins := range b.Instrs {
			if v, ok := ins.(ssa.Value); ok {
				fi.idx[v] = n
				n++
			}
		}
	}
	fi.nregs = n
	p.fnInfo.Store(fn, fi)
	return fi
}

// ---------- execution state ----------

type PanicV struct {
	val       Value // IfaceV
	msg       string
	recovered bool
	runtime   bool
}

type deferred struct {
	fn   Value
	args []Value
	// for invoke-mode defers
	method *types.Func
}

type Frame struct {
	fn        *ssa.Function
	info      *FnInfo
	regs      []Value
	block     *ssa.BasicBlock
	prev      *ssa.BasicBlock
	pc        int
	defers    []deferred
	deferMode int // 0 none, 1 RunDefers, 2 panicking, 3 recovered
	panicVal  *PanicV
	retTo     ssa.Value // register in the caller frame receiving the result (nil: discard)
	isDefer   bool      // this frame is a deferred call
	boundary  bool      // nested-call boundary (callFunction)
	result    Value
	selState  int
}

type Goroutine struct {
	id      int
	stack   []*Frame
	waiting func() bool
	done    bool
	panic   *PanicV
	waitTag string
}

type pathEnd struct {
	reason string
	detail string
}

type Exec struct {
	P  *Program
	tt *TermTable
	S  *Solver

	// per path
	globals     map[*ssa.Global]*Obj
	nextObj     int
	gs          []*Goroutine
	cur         *Goroutine
	steps       int64
	inited      map[*ssa.Package]bool
	locks       map[string]*lockState
	onces       map[string]bool
	wgs         map[string]int
	nondetN     map[string]int
	pathVars    []nondetRec
	choices     []int // harness-level Choose outcomes on this path
	observes    []observeRec
	covers      map[string]bool
	clockN      int
	lastNow     *Term
	timers      []*Obj
	writeHook   func(*Obj)
	frameOwned  map[*Obj]bool
	byteTab     [256]*Term
	pathAll     []*Term
	epoch       int
	saved       map[*Obj]Value
	baseGlobals map[*ssa.Global]*Obj
	baseInited  map[*ssa.Package]bool
	baseOnces   map[string]bool
	baseNextObj int

	// DFS
	trail []*decision
	pos   int
	model Model
	evalC map[*Term]*Term

	// config
	maxSteps int64
	maxDepth int
	params   map[string]int64
	initPkgs map[string]bool
	kf       map[string]bool // open known-finding ids

	// results
	R *JobResult

	nestDepth int
	oneShotMs int
	hardMemo  map[*Term]bool
	fixed     *Violation // concrete replay inside the interpreter
	builders  map[string]StrV
	syncMaps  map[string]MapV
	pools     map[string][]Value
}

type nondetRec struct {
	name string
	kind string // "u8","u16","u32","u64","bool","f64","f32"
	t    *Term
}

type observeRec struct {
	name string
	v    Value
}

type decision struct {
	kind    int // 0 branch, 1 choose, 2 assume
	chosen  int
	options []int   // remaining (feasible) alternatives, not yet explored
	models  []Model // models for remaining alternatives (branch only)
	cond    *Term   // branch cond
}

func (e *Exec) unsupported(what string) {
	panic(pathEnd{"unsupported", what + e.where()})
}

func (e *Exec) where() string {
	if e.cur == nil || len(e.cur.stack) == 0 {
		return ""
	}
	var sb strings.Builder
	n := 0
	for i := len(e.cur.stack) - 1; i >= 0 && n < 6; i-- {
		f := e.cur.stack[i]
		pos := token.NoPos
		if f.block != nil && f.pc < len(f.block.Instrs) {
			pos = f.block.Instrs[f.pc].Pos()
		}
		sb.WriteString(" @ " + f.fn.String())
		if pos.IsValid() {
			p := e.P.prog.Fset.Position(pos)
			sb.WriteString(fmt.Sprintf(" (%s:%d)", shortFile(p.Filename), p.Line))
		}
		n++
	}
	return sb.String()
}

func shortFile(f string) string {
	if i := strings.LastIndex(f, "/"); i >= 0 {
		if j := strings.LastIndex(f[:i], "/"); j >= 0 {
			return f[j+1:]
		}
	}
	return f
}

func (e *Exec) runtimePanic(msg string) {
	panic(&PanicV{msg: msg, runtime: true, val: IfaceV{t: types.Universe.Lookup("error").Type(), v: StrV{s: msg}}})
}

// ---------- path reset ----------

// initPhase runs the package initializers once, concretely; the resulting heap is the base layer
// restored after every path.
func (e *Exec) initPhase(pkg *ssa.Package) (err string) {
	e.epoch = 0
	e.globals = map[*ssa.Global]*Obj{}
	e.inited = map[*ssa.Package]bool{}
	e.locks = map[string]*lockState{}
	e.onces = map[string]bool{}
	e.wgs = map[string]int{}
	e.nondetN = map[string]int{}
	e.covers = map[string]bool{}
	e.builders = map[string]StrV{}
	e.syncMaps = map[string]MapV{}
	e.pools = map[string][]Value{}
	e.saved = map[*Obj]Value{}
	defer func() {
		if r := recover(); r != nil {
			switch x := r.(type) {
			case pathEnd:
				err = "init: " + x.reason + ": " + x.detail
			case *PanicV:
				err = "init: panic: " + x.msg
			default:
				err = fmt.Sprint("init: ", r)
			}
		}
	}()
	g := &Goroutine{id: 0}
	e.gs = []*Goroutine{g}
	e.cur = g
	e.ensureInit(pkg)
	e.baseGlobals = e.globals
	e.baseInited = e.inited
	e.baseOnces = e.onces
	e.baseNextObj = e.nextObj
	e.epoch = 1
	return ""
}

func (e *Exec) resetPath() {
	for o, v := range e.saved {
		o.val = v
	}
	e.saved = map[*Obj]Value{}
	e.globals = make(map[*ssa.Global]*Obj, len(e.baseGlobals))
	for k, v := range e.baseGlobals {
		e.globals[k] = v
	}
	e.nextObj = e.baseNextObj
	e.gs = nil
	e.cur = nil
	e.steps = 0
	e.inited = make(map[*ssa.Package]bool, len(e.baseInited))
	for k, v := range e.baseInited {
		e.inited[k] = v
	}
	e.locks = map[string]*lockState{}
	e.onces = make(map[string]bool, len(e.baseOnces))
	for k, v := range e.baseOnces {
		e.onces[k] = v
	}
	e.wgs = map[string]int{}
	e.builders = map[string]StrV{}
	e.syncMaps = map[string]MapV{}
	e.pools = map[string][]Value{}
	e.pathAll = nil
	e.nondetN = map[string]int{}
	e.pathVars = nil
	e.choices = nil
	e.observes = nil
	e.clockN = 0
	e.lastNow = nil
	e.timers = nil
	e.pos = 0
	e.nestDepth = 0
	e.writeHook = nil
}

// ---------- registers ----------

func (e *Exec) get(f *Frame, v ssa.Value) Value {
	switch x := v.(type) {
	case *ssa.Const:
		return e.constVal(x)
	case *ssa.Function:
		return x
	case *ssa.Global:
		return PtrV{obj: e.global(x)}
	case *ssa.Builtin:
		return x
	}
	i, ok := f.info.idx[v]
	if !ok {
		e.unsupported(fmt.Sprintf("unknown ssa value %T %s", v, v.Name()))
	}
	return f.regs[i]
}

func (e *Exec) set(f *Frame, v ssa.Value, val Value) {
	f.regs[f.info.idx[v]] = val
}

func (e *Exec) global(g *ssa.Global) *Obj {
	if o, ok := e.globals[g]; ok {
		return o
	}
	e.ensureInit(g.Pkg)
	if o, ok := e.globals[g]; ok {
		return o
	}
	if g.Pkg != nil && !e.initAllowed(g.Pkg) && !zeroSafeGlobals[g.String()] {
		// the initializer of this package has not been executed: reading the variable would silently
		// yield a zero value (an empty table, a nil error, ...). Loud, never a default.
		e.unsupported("global " + g.String() + " of a package whose initializer is not executed (add the package to init_pkgs or model the caller)")
	}
	o := e.newObj(e.zero(g.Type().(*types.Pointer).Elem()), g.Type().(*types.Pointer).Elem())
	o.tag = "global:" + g.String()
	e.globals[g] = o
	return o
}

// globals of non-initialised packages whose zero value is their initial value
var zeroSafeGlobals = map[string]bool{"os.Stdout": true, "os.Stderr": true, "os.Stdin": true}

func (e *Exec) initAllowed(pkg *ssa.Package) bool {
	path := pkg.Pkg.Path()
	if strings.HasPrefix(path, e.P.repoMod) {
		return true
	}
	return e.initPkgs[path]
}

// ensureInit runs the package initializer (once per path) if the package is whitelisted.
func (e *Exec) ensureInit(pkg *ssa.Package) {
	if pkg == nil || e.inited[pkg] {
		return
	}
	e.inited[pkg] = true
	if !e.initAllowed(pkg) {
		return
	}
	initFn := pkg.Func("init")
	if initFn == nil || initFn.Blocks == nil {
		return
	}
	e.runBody(initFn, nil)
}

func (e *Exec) constVal(c *ssa.Const) Value {
	t := c.Type()
	if c.Value == nil {
		return e.zero(t)
	}
	switch u := t.Underlying().(type) {
	case *types.Basic:
		if w, signed, ok := intWidth(u); ok {
			if signed {
				return e.tt.BVConst(uint64(c.Int64()), w)
			}
			return e.tt.BVConst(c.Uint64(), w)
		}
		switch u.Kind() {
		case types.Bool, types.UntypedBool:
			return e.tt.Bool(constant.BoolVal(c.Value))
		case types.Float64, types.UntypedFloat:
			return e.tt.FPConst(c.Float64(), FP64Sort)
		case types.Float32:
			return e.tt.FPConst(c.Float64(), FP32Sort)
		case types.String, types.UntypedString:
			return StrV{s: constant.StringVal(c.Value)}
		}
	}
	e.unsupported("const of type " + t.String())
	return nil
}

// ---------- calling ----------

func (e *Exec) pushFrame(g *Goroutine, fn *ssa.Function, args []Value, free []Value, retTo ssa.Value) *Frame {
	if fn.Blocks == nil {
		e.unsupported("call of external function without model: " + fn.String())
	}
	if len(g.stack) > 400 {
		panic(pathEnd{"limit", "call depth > 400" + e.where()})
	}
	fi := e.P.info(fn)
	f := &Frame{fn: fn, info: fi, regs: make([]Value, fi.nregs), block: fn.Blocks[0], retTo: retTo}
	if len(args) != len(fn.Params) {
		e.unsupported(fmt.Sprintf("arity mismatch calling %s: %d vs %d", fn, len(args), len(fn.Params)))
	}
	copy(f.regs, args)
	copy(f.regs[len(fn.Params):], free)
	g.stack = append(g.stack, f)
	if e.R != nil {
		e.R.noteFn(fn)
	}
	return f
}

// callFunction runs fn to completion in a nested loop on the current goroutine and returns its result.
// A panic escaping fn is re-raised into the caller (as a Go panic of *PanicV).
func (e *Exec) callFunction(fnv Value, args []Value) Value {
	g := e.cur
	if g == nil {
		g = &Goroutine{id: 0}
		e.gs = append(e.gs, g)
		e.cur = g
	}
	base := len(g.stack)
	var fr *Frame
	switch fn := fnv.(type) {
	case *ssa.Function:
		if r, ok := e.tryIntrinsic(fn, args, nil); ok {
			return r
		}
		fr = e.pushFrame(g, fn, args, nil, nil)
	case *ClosureV:
		fr = e.pushFrame(g, fn.fn, args, fn.free, nil)
	case *ModelFn:
		return fn.f(e, args)
	case NilFunc:
		e.runtimePanic("invalid memory address or nil pointer dereference (nil func call)")
	default:
		e.unsupported(fmt.Sprintf("callFunction on %T", fnv))
	}
	fr.boundary = true
	e.nestDepth++
	defer func() { e.nestDepth-- }()
	res, pv := e.runNested(g, base)
	if pv != nil {
		panic(pv)
	}
	return res
}

// runNested runs a nested call to completion; blocking inside it is not supported.
func (e *Exec) runNested(g *Goroutine, base int) (res Value, pv *PanicV) {
	defer func() {
		if r := recover(); r != nil {
			if b, ok := r.(blockReq); ok {
				panic(pathEnd{"unsupported", "blocking operation (" + b.tag + ") inside a nested call" + e.where()})
			}
			panic(r)
		}
	}()
	return e.runUntil(g, base)
}

// ---------- main loop ----------

// runUntil executes goroutine g until its stack depth drops to base. Returns the result of the
// frame at base (boundary frame), or an escaping panic.
func (e *Exec) runUntil(g *Goroutine, base int) (Value, *PanicV) {
	for {
		if len(g.stack) <= base {
			return nil, nil
		}
		res, pv, done := e.stepTop(g, base)
		if done {
			return res, pv
		}
	}
}

// stepTop executes one instruction (or one unwinding action) of the top frame of g.
// done is reported when the frame at depth base has finished.
func (e *Exec) stepTop(g *Goroutine, base int) (res Value, pv *PanicV, done bool) {
	f := g.stack[len(g.stack)-1]
	// unwinding / defer handling
	if f.deferMode >= 2 {
		if f.deferMode == 2 && f.panicVal.recovered {
			f.deferMode = 3
		}
		if len(f.defers) > 0 {
			d := f.defers[len(f.defers)-1]
			f.defers = f.defers[:len(f.defers)-1]
			e.invokeDeferred(g, f, d)
			return nil, nil, false
		}
		if f.deferMode == 3 {
			f.deferMode = 0
			f.panicVal = nil
			if f.fn.Recover != nil {
				f.prev = f.block
				f.block = f.fn.Recover
				f.pc = 0
				return nil, nil, false
			}
			// return zero values
			var rv Value
			rs := f.fn.Signature.Results()
			switch rs.Len() {
			case 0:
			case 1:
				rv = e.zero(rs.At(0).Type())
			default:
				rv = e.zero(rs)
			}
			return e.finishFrame(g, f, rv, base)
		}
		// propagate panic to caller
		p := f.panicVal
		g.stack = g.stack[:len(g.stack)-1]
		if len(g.stack) <= base || f.boundary {
			return nil, p, true
		}
		c := g.stack[len(g.stack)-1]
		c.panicVal = p
		c.deferMode = 2
		return nil, nil, false
	}
	var caught *PanicV
	func() {
		defer func() {
			if r := recover(); r != nil {
				if p, ok := r.(*PanicV); ok {
					caught = p
					return
				}
				panic(r)
			}
		}()
		res, done = e.execInstr(g, f, base)
	}()
	if caught != nil {
		// the panic is raised in the frame currently on top (intrinsics run in the caller's frame)
		top := g.stack[len(g.stack)-1]
		top.panicVal = caught
		top.deferMode = 2
		return nil, nil, false
	}
	return res, nil, done
}

func (e *Exec) invokeDeferred(g *Goroutine, f *Frame, d deferred) {
	defer func() {
		if r := recover(); r != nil {
			if p, ok := r.(*PanicV); ok {
				// panic inside an intrinsic deferred call: replaces the current panic
				f.panicVal = p
				f.deferMode = 2
				return
			}
			panic(r)
		}
	}()
	fr := e.dispatchCall(g, d.fn, d.args, nil)
	if fr != nil {
		fr.isDefer = true
	}
}

// finishFrame pops f and delivers rv to the caller.
func (e *Exec) finishFrame(g *Goroutine, f *Frame, rv Value, base int) (Value, *PanicV, bool) {
	g.stack = g.stack[:len(g.stack)-1]
	if f.boundary || len(g.stack) <= base {
		return rv, nil, true
	}
	c := g.stack[len(g.stack)-1]
	if f.retTo != nil && !f.isDefer {
		e.set(c, f.retTo, rv)
	}
	if !f.isDefer {
		c.pc++
	}
	return nil, nil, false
}

// dispatchCall either runs an intrinsic immediately (returning nil frame after storing the result via
// the returned value) or pushes a frame. For intrinsics the result is written to retTo in the caller.
func (e *Exec) dispatchCall(g *Goroutine, fnv Value, args []Value, retTo ssa.Value) *Frame {
	switch fn := fnv.(type) {
	case *ssa.Function:
		caller := g.stack[len(g.stack)-1]
		if r, ok := e.tryIntrinsic(fn, args, caller); ok {
			if retTo != nil {
				e.set(caller, retTo, r)
			}
			return nil
		}
		return e.pushFrame(g, fn, args, nil, retTo)
	case *ClosureV:
		return e.pushFrame(g, fn.fn, args, fn.free, retTo)
	case *ModelFn:
		r := fn.f(e, args)
		if retTo != nil {
			e.set(g.stack[len(g.stack)-1], retTo, r)
		}
		return nil
	case *ssa.Builtin:
		r := e.builtin(g.stack[len(g.stack)-1], fn, args, nil)
		if retTo != nil {
			e.set(g.stack[len(g.stack)-1], retTo, r)
		}
		return nil
	case NilFunc:
		e.runtimePanic("invalid memory address or nil pointer dereference (nil func call)")
	}
	e.unsupported(fmt.Sprintf("call of %T", fnv))
	return nil
}

type blockReq struct {
	ready func() bool
	tag   string
}

func (e *Exec) block(tag string, ready func() bool) {
	panic(blockReq{ready, tag})
}

// execInstr executes the instruction at f.pc. For calls that push a frame, pc is advanced when the
// callee returns (finishFrame).
func (e *Exec) execInstr(g *Goroutine, f *Frame, base int) (Value, bool) {
	e.steps++
	if e.steps > e.maxSteps {
		panic(pathEnd{"limit", fmt.Sprintf("step budget %d exceeded", e.maxSteps) + e.where()})
	}
	ins := f.block.Instrs[f.pc]
	switch x := ins.(type) {
	case *ssa.Phi:
		// evaluate all phis of the block simultaneously
		var pi int
		for i, p := range f.block.Preds {
			if p == f.prev {
				pi = i
				break
			}
		}
		n := 0
		var vals []Value
		for _, in := range f.block.Instrs {
			ph, ok := in.(*ssa.Phi)
			if !ok {
				break
			}
			vals = append(vals, e.get(f, ph.Edges[pi]))
			n++
		}
		for i := 0; i < n; i++ {
			e.set(f, f.block.Instrs[i].(*ssa.Phi), vals[i])
		}
		f.pc += n
		return nil, false
	case *ssa.BinOp:
		e.set(f, x, e.binop(x.Op, e.get(f, x.X), e.get(f, x.Y), x.X.Type(), x.Y.Type()))
	case *ssa.UnOp:
		e.set(f, x, e.unop(g, f, x))
	case *ssa.Alloc:
		et := x.Type().(*types.Pointer).Elem()
		o := e.newObj(e.zero(et), et)
		e.set(f, x, PtrV{obj: o})
	case *ssa.Store:
		p := e.get(f, x.Addr).(PtrV)
		e.store(p, e.get(f, x.Val))
	case *ssa.FieldAddr:
		p := e.get(f, x.X).(PtrV)
		if p.obj == nil {
			e.runtimePanic("invalid memory address or nil pointer dereference")
		}
		e.set(f, x, p.extend(x.Field))
	case *ssa.Field:
		sv := e.get(f, x.X)
		st, ok := sv.(StructV)
		if !ok {
			e.unsupported(fmt.Sprintf("Field on %T", sv))
		}
		e.set(f, x, st[x.Field])
	case *ssa.IndexAddr:
		e.set(f, x, e.indexAddr(e.get(f, x.X), e.get(f, x.Index).(*Term), x.Index.Type()))
	case *ssa.Index:
		e.set(f, x, e.index(e.get(f, x.X), e.get(f, x.Index).(*Term), x.Index.Type()))
	case *ssa.Lookup:
		e.set(f, x, e.lookup(x, e.get(f, x.X), e.get(f, x.Index)))
	case *ssa.MapUpdate:
		m := e.get(f, x.Map).(MapV)
		e.mapSet(m, e.get(f, x.Key), e.get(f, x.Value))
	case *ssa.MakeMap:
		mt := x.Type().Underlying().(*types.Map)
		e.set(f, x, e.newMap(mt.Key(), mt.Elem()))
	case *ssa.MakeSlice:
		st := x.Type().Underlying().(*types.Slice)
		ln := e.concreteInt(e.get(f, x.Len).(*Term), "make len")
		cp := e.concreteInt(e.get(f, x.Cap).(*Term), "make cap")
		if ln < 0 || cp < ln {
			e.runtimePanic("runtime error: makeslice: len out of range")
		}
		e.set(f, x, e.makeSlice(st.Elem(), ln, cp))
	case *ssa.MakeChan:
		ct := x.Type().Underlying().(*types.Chan)
		sz := e.concreteInt(e.get(f, x.Size).(*Term), "make chan size")
		o := e.newObj(&ChanData{cap: sz, etype: ct.Elem()}, nil)
		o.tag = "chan"
		e.set(f, x, ChanV{o})
	case *ssa.MakeClosure:
		fn := x.Fn.(*ssa.Function)
		free := make([]Value, len(x.Bindings))
		for i, b := range x.Bindings {
			free[i] = e.get(f, b)
		}
		e.set(f, x, &ClosureV{fn: fn, free: free})
	case *ssa.MakeInterface:
		e.set(f, x, IfaceV{t: x.X.Type(), v: e.get(f, x.X)})
	case *ssa.ChangeInterface:
		e.set(f, x, e.get(f, x.X))
	case *ssa.ChangeType:
		e.set(f, x, e.get(f, x.X))
	case *ssa.Convert:
		e.set(f, x, e.convert(e.get(f, x.X), x.X.Type(), x.Type()))
	case *ssa.MultiConvert:
		e.set(f, x, e.convert(e.get(f, x.X), x.X.Type(), x.Type()))
	case *ssa.SliceToArrayPointer:
		sv := e.get(f, x.X).(SliceV)
		n := int(x.Type().(*types.Pointer).Elem().Underlying().(*types.Array).Len())
		if sv.len < n {
			e.runtimePanic("runtime error: cannot convert slice to array pointer")
		}
		e.unsupported("SliceToArrayPointer")
	case *ssa.Slice:
		e.set(f, x, e.sliceOp(f, x))
	case *ssa.Extract:
		e.set(f, x, e.get(f, x.Tuple).(TupleV)[x.Index])
	case *ssa.TypeAssert:
		e.set(f, x, e.typeAssert(x, e.get(f, x.X)))
	case *ssa.Range:
		e.set(f, x, e.rangeInit(e.get(f, x.X)))
	case *ssa.Next:
		e.set(f, x, e.rangeNext(x, e.get(f, x.Iter)))
	case *ssa.Jump:
		f.prev = f.block
		f.block = f.block.Succs[0]
		f.pc = 0
		return nil, false
	case *ssa.If:
		c := e.get(f, x.Cond).(*Term)
		var b bool
		if c.Const {
			b = c.U == 1
		} else {
			b = e.Branch(c)
		}
		f.prev = f.block
		if b {
			f.block = f.block.Succs[0]
		} else {
			f.block = f.block.Succs[1]
		}
		f.pc = 0
		return nil, false
	case *ssa.Return:
		var rv Value
		switch len(x.Results) {
		case 0:
		case 1:
			rv = e.get(f, x.Results[0])
		default:
			tv := make(TupleV, len(x.Results))
			for i, r := range x.Results {
				tv[i] = e.get(f, r)
			}
			rv = tv
		}
		r, _, done := e.finishFrame(g, f, rv, base)
		return r, done
	case *ssa.RunDefers:
		if len(f.defers) > 0 {
			d := f.defers[len(f.defers)-1]
			f.defers = f.defers[:len(f.defers)-1]
			e.invokeDeferred(g, f, d)
			return nil, false // pc stays on RunDefers
		}
	case *ssa.Defer:
		fnv, args := e.prepareCall(f, &x.Call)
		f.defers = append(f.defers, deferred{fn: fnv, args: args})
	case *ssa.Go:
		fnv, args := e.prepareCall(f, &x.Call)
		ng := &Goroutine{id: len(e.gs)}
		e.gs = append(e.gs, ng)
		// bottom pseudo-frame is not needed: push the function frame directly
		save := e.cur
		e.cur = ng
		func() {
			defer func() { e.cur = save }()
			switch fn := fnv.(type) {
			case *ssa.Function:
				if fn.Blocks == nil {
					if _, ok := e.tryIntrinsic(fn, args, nil); ok {
						ng.done = true
						return
					}
				}
				e.pushFrame(ng, fn, args, nil, nil)
			case *ClosureV:
				e.pushFrame(ng, fn.fn, args, fn.free, nil)
			default:
				e.unsupported(fmt.Sprintf("go of %T", fnv))
			}
		}()
	case *ssa.Panic:
		v := e.get(f, x.X)
		iv, _ := v.(IfaceV)
		panic(&PanicV{val: iv, msg: e.panicMsg(iv)})
	case *ssa.Send:
		ch := e.get(f, x.Chan).(ChanV)
		e.chanSend(ch, e.get(f, x.X))
	case *ssa.Select:
		e.set(f, x, e.selectOp(f, x))
	case *ssa.Call:
		fnv, args := e.prepareCall(f, &x.Call)
		if b, ok := fnv.(*ssa.Builtin); ok {
			e.set(f, x, e.builtin(f, b, args, &x.Call))
			break
		}
		fr := e.dispatchCall(g, fnv, args, x)
		if fr != nil {
			return nil, false // pc advanced on return
		}
	case *ssa.DebugRef:
	default:
		e.unsupported(fmt.Sprintf("instruction %T", ins))
	}
	f.pc++
	return nil, false
}

func (e *Exec) panicMsg(iv IfaceV) string {
	if iv.t == nil {
		return "panic(nil)"
	}
	switch v := iv.v.(type) {
	case StrV:
		if v.IsConcrete() {
			return v.Concrete()
		}
	}
	return "panic(" + iv.t.String() + ")"
}

// prepareCall resolves the callee and evaluates the arguments.
func (e *Exec) prepareCall(f *Frame, c *ssa.CallCommon) (Value, []Value) {
	if c.IsInvoke() {
		recv := e.get(f, c.Value)
		iv, ok := recv.(IfaceV)
		if !ok {
			e.unsupported(fmt.Sprintf("invoke on %T", recv))
		}
		if iv.t == nil {
			e.runtimePanic("invalid memory address or nil pointer dereference (method call on nil interface)")
		}
		if rt, ok := iv.v.(ReflT); ok {
			args := make([]Value, 0, len(c.Args))
			for _, a := range c.Args {
				args = append(args, e.get(f, a))
			}
			return e.reflectMethod(rt, c.Method.Name()), args
		}
		args := make([]Value, 0, len(c.Args)+1)
		args = append(args, iv.v)
		for _, a := range c.Args {
			args = append(args, e.get(f, a))
		}
		fn := e.lookupMethod(iv.t, c.Method)
		if fn == nil {
			e.unsupported("method not found: " + iv.t.String() + "." + c.Method.Name())
		}
		return fn, args
	}
	fnv := e.get(f, c.Value)
	args := make([]Value, len(c.Args))
	for i, a := range c.Args {
		args[i] = e.get(f, a)
	}
	return fnv, args
}

func (e *Exec) lookupMethod(t types.Type, m *types.Func) *ssa.Function {
	e.P.methMu.Lock()
	defer e.P.methMu.Unlock()
	return e.P.prog.LookupMethod(t, m.Pkg(), m.Name())
}

// ---------- scheduler ----------

// RunMain runs fn as goroutine 0 together with all goroutines it spawns.
func (e *Exec) RunMain(fn *ssa.Function, args []Value) {
	g := &Goroutine{id: 0}
	e.gs = []*Goroutine{g}
	e.cur = g
	e.ensureInit(fn.Pkg)
	e.pushFrame(g, fn, args, nil, nil)
	for {
		g = e.cur
		if len(g.stack) == 0 {
			g.done = true
		}
		if g.done || g.waiting != nil {
			if e.gs[0].done {
				return
			}
			ng := e.pickNext(false)
			if ng == nil {
				panic(pathEnd{"deadlock", e.deadlockInfo()})
			}
			e.cur = ng
			ng.waiting = nil
			continue
		}
		var br *blockReq
		func() {
			defer func() {
				if r := recover(); r != nil {
					if b, ok := r.(blockReq); ok {
						br = &b
						return
					}
					panic(r)
				}
			}()
			_, pv, done := e.stepTop(g, 0)
			if done {
				g.done = true
				if pv != nil {
					g.panic = pv
					panic(pathEnd{"panic", fmt.Sprintf("goroutine %d: %s", g.id, pv.msg)})
				}
			}
		}()
		if br != nil {
			g.waiting = br.ready
			g.waitTag = br.tag
		}
	}
}

func (e *Exec) deadlockInfo() string {
	var sb strings.Builder
	for _, g := range e.gs {
		if !g.done {
			sb.WriteString(fmt.Sprintf("g%d waiting on %s; ", g.id, g.waitTag))
		}
	}
	return sb.String()
}

func (e *Exec) runnable() []*Goroutine {
	var out []*Goroutine
	for _, g := range e.gs {
		if g.done {
			continue
		}
		if g.waiting == nil || g.waiting() {
			out = append(out, g)
		}
	}
	return out
}

// pickNext chooses the next goroutine to run (forking when several are runnable).
func (e *Exec) pickNext(includeCur bool) *Goroutine {
	for {
		rs := e.runnable()
		if len(rs) == 0 {
			// let time pass: fire a pending timer if any goroutine waits
			if e.fireTimer() {
				continue
			}
			return nil
		}
		if len(rs) == 1 {
			return rs[0]
		}
		i := e.Choose(len(rs))
		return rs[i]
	}
}

// fireTimer delivers one pending timer (forking over which one).
func (e *Exec) fireTimer() bool {
	var pend []*Obj
	for _, t := range e.timers {
		cd := t.val.(*ChanData)
		if len(cd.buf) == 0 && !cd.closed {
			pend = append(pend, t)
		}
	}
	if len(pend) == 0 {
		return false
	}
	i := 0
	if len(pend) > 1 {
		i = e.Choose(len(pend))
	}
	cd := pend[i].val.(*ChanData)
	cd.buf = append(cd.buf, TimeV{ns: e.now()})
	if !cd.ticker {
		// one-shot timers fire once
		for j, t := range e.timers {
			if t == pend[i] {
				e.timers = append(e.timers[:j:j], e.timers[j+1:]...)
				break
			}
		}
	}
	return true
}

// ---------- helpers used by instructions ----------

func (e *Exec) concreteInt(t *Term, what string) int {
	if t.Const {
		return int(sext(t.U, t.S.W))
	}
	// concretize by forking over feasible values (small ranges only)
	for k := 0; k < 64; k++ {
		if e.Branch(e.tt.Eq(t, e.tt.BVConst(uint64(k), t.S.W))) {
			return k
		}
	}
	e.unsupported("symbolic " + what + " not concretizable in [0,64)")
	return 0
}

func (e *Exec) makeSlice(et types.Type, ln, cp int) SliceV {
	arr := make(ArrayV, cp)
	if cp > 0 {
		z := e.zero(et)
		for i := range arr {
			arr[i] = z
		}
	}
	o := e.newObj(arr, et)
	o.tag = "slice"
	return SliceV{arr: o, off: 0, len: ln, cap: cp}
}

func (e *Exec) sliceFrom(et types.Type, vals []Value) SliceV {
	arr := make(ArrayV, len(vals))
	copy(arr, vals)
	o := e.newObj(arr, et)
	o.tag = "slice"
	return SliceV{arr: o, len: len(vals), cap: len(vals)}
}

func (e *Exec) sliceElems(s SliceV) []Value {
	if s.arr == nil {
		return nil
	}
	return s.arr.val.(ArrayV)[s.off : s.off+s.len]
}

func (e *Exec) idxInRange(idx *Term, it types.Type, n int) int {
	// returns a concrete index in [0,n) or raises the runtime panic
	if idx.Const {
		var v int64
		if b, ok := it.Underlying().(*types.Basic); ok {
			if _, signed, _ := intWidth(b); signed {
				v = sext(idx.U, idx.S.W)
			} else {
				v = int64(idx.U)
				if idx.U > uint64(math.MaxInt64) {
					v = -1
				}
			}
		}
		if v < 0 || v >= int64(n) {
			e.runtimePanic(fmt.Sprintf("runtime error: index out of range [%d] with length %d", v, n))
		}
		return int(v)
	}
	for k := 0; k < n; k++ {
		if e.Branch(e.tt.Eq(idx, e.tt.BVConst(uint64(k), idx.S.W))) {
			return k
		}
	}
	e.runtimePanic(fmt.Sprintf("runtime error: index out of range [sym] with length %d", n))
	return 0
}

func (e *Exec) indexAddr(x Value, idx *Term, it types.Type) Value {
	switch c := x.(type) {
	case SliceV:
		i := e.idxInRange(idx, it, c.len)
		return PtrV{obj: c.arr, path: []int{c.off + i}}
	case PtrV: // pointer to array
		if c.obj == nil {
			e.runtimePanic("invalid memory address or nil pointer dereference")
		}
		arr := navigate(c.obj.val, c.path).(ArrayV)
		i := e.idxInRange(idx, it, len(arr))
		return c.extend(i)
	}
	e.unsupported(fmt.Sprintf("IndexAddr on %T", x))
	return nil
}

func (e *Exec) index(x Value, idx *Term, it types.Type) Value {
	switch c := x.(type) {
	case ArrayV:
		i := e.idxInRange(idx, it, len(c))
		return c[i]
	case StrV:
		if !idx.Const && c.Len() > 0 && c.Len() <= 256 {
			// table lookup with a symbolic index: one in-range decision, then an ite chain (no fork
			// per element)
			tt := e.tt
			n := c.Len()
			inr := tt.ULt(idx, tt.BVConst(uint64(n), idx.S.W))
			if !inr.IsTrue() && !e.Branch(inr) {
				e.runtimePanic(fmt.Sprintf("runtime error: index out of range [sym] with length %d", n))
			}
			bs := e.strBytes(c)
			r := bs[n-1]
			for i := n - 2; i >= 0; i-- {
				r = tt.Ite(tt.Eq(idx, tt.BVConst(uint64(i), idx.S.W)), bs[i], r)
			}
			return r
		}
		i := e.idxInRange(idx, it, c.Len())
		if c.sym != nil {
			return c.sym[i]
		}
		return e.byteConst(c.s[i])
	}
	e.unsupported(fmt.Sprintf("Index on %T", x))
	return nil
}

func (e *Exec) lookup(x *ssa.Lookup, m Value, k Value) Value {
	switch c := m.(type) {
	case MapV:
		mt := x.X.Type().Underlying().(*types.Map)
		v, ok := e.mapGet(c, k)
		if !ok {
			v = e.zero(mt.Elem())
		}
		if x.CommaOk {
			return TupleV{v, e.tt.Bool(ok)}
		}
		return v
	case StrV:
		return e.index(c, k.(*Term), x.Index.Type())
	}
	e.unsupported(fmt.Sprintf("Lookup on %T", m))
	return nil
}

func (e *Exec) sliceOp(f *Frame, x *ssa.Slice) Value {
	v := e.get(f, x.X)
	geti := func(sv ssa.Value, def int) int {
		if sv == nil {
			return def
		}
		return e.concreteInt(e.get(f, sv).(*Term), "slice bound")
	}
	switch c := v.(type) {
	case StrV:
		lo := geti(x.Low, 0)
		hi := geti(x.High, c.Len())
		if lo < 0 || hi > c.Len() || lo > hi {
			e.runtimePanic(fmt.Sprintf("runtime error: slice bounds out of range [%d:%d] with length %d", lo, hi, c.Len()))
		}
		return e.strSub(c, lo, hi)
	case SliceV:
		lo := geti(x.Low, 0)
		hi := geti(x.High, c.len)
		mx := geti(x.Max, c.cap)
		if lo < 0 || hi > c.cap || lo > hi || mx > c.cap || hi > mx {
			e.runtimePanic(fmt.Sprintf("runtime error: slice bounds out of range [%d:%d:%d] with capacity %d", lo, hi, mx, c.cap))
		}
		if c.arr == nil {
			return SliceV{}
		}
		return SliceV{arr: c.arr, off: c.off + lo, len: hi - lo, cap: mx - lo}
	case PtrV: // pointer to array
		if c.obj == nil {
			e.runtimePanic("invalid memory address or nil pointer dereference")
		}
		arr := navigate(c.obj.val, c.path).(ArrayV)
		lo := geti(x.Low, 0)
		hi := geti(x.High, len(arr))
		mx := geti(x.Max, len(arr))
		if lo < 0 || hi > len(arr) || lo > hi || mx > len(arr) || hi > mx {
			e.runtimePanic("runtime error: slice bounds out of range")
		}
		if len(c.path) != 0 {
			e.unsupported("slicing an array embedded in another object")
		}
		// the array object becomes a slice backing store
		c.obj.tag = "slice"
		return SliceV{arr: c.obj, off: lo, len: hi - lo, cap: mx - lo}
	}
	e.unsupported(fmt.Sprintf("Slice on %T", v))
	return nil
}

func (e *Exec) implements(t types.Type, iface *types.Interface) bool {
	return types.Implements(t, iface)
}

func (e *Exec) typeAssert(x *ssa.TypeAssert, v Value) Value {
	iv, ok := v.(IfaceV)
	if !ok {
		e.unsupported(fmt.Sprintf("TypeAssert on %T", v))
	}
	var match bool
	var out Value
	if it, isI := x.AssertedType.Underlying().(*types.Interface); isI {
		match = iv.t != nil && e.implements(iv.t, it)
		out = iv
	} else {
		match = iv.t != nil && types.Identical(iv.t, x.AssertedType)
		out = iv.v
	}
	if x.CommaOk {
		if !match {
			out = e.zero(x.AssertedType)
		}
		return TupleV{out, e.tt.Bool(match)}
	}
	if !match {
		tn := "nil"
		if iv.t != nil {
			tn = iv.t.String()
		}
		e.runtimePanic(fmt.Sprintf("interface conversion: interface is %s, not %s", tn, x.AssertedType.String()))
	}
	return out
}

// ---- range ----

type rangeIter struct {
	m     *MapData
	order []int
	pos   int
	s     StrV
	isStr bool
}

func (e *Exec) rangeInit(v Value) Value {
	switch c := v.(type) {
	case MapV:
		it := &rangeIter{}
		if c.obj != nil {
			it.m = c.obj.val.(*MapData)
			for i := range it.m.keys {
				if !it.m.dead[i] {
					it.order = append(it.order, i)
				}
			}
			if e.params["map_reverse"] != 0 {
				sort.Sort(sort.Reverse(sort.IntSlice(it.order)))
			}
		}
		return it
	case StrV:
		return &rangeIter{s: c, isStr: true}
	}
	e.unsupported(fmt.Sprintf("Range on %T", v))
	return nil
}

func (e *Exec) rangeNext(x *ssa.Next, itv Value) Value {
	it := itv.(*rangeIter)
	tt := e.tt
	if it.isStr {
		if it.pos >= it.s.Len() {
			return TupleV{tt.Bool(false), tt.BVConst(0, 64), tt.BVConst(0, 32)}
		}
		i := it.pos
		if it.s.sym == nil {
			r, size := decodeRune(it.s.s[i:])
			it.pos += size
			return TupleV{tt.Bool(true), tt.BVConst(uint64(i), 64), tt.BVConst(uint64(r), 32)}
		}
		b := it.s.sym[i]
		if !b.Const || b.U >= 0x80 {
			if e.Branch(tt.ULt(b, tt.BVConst(0x80, 8))) {
				it.pos++
				return TupleV{tt.Bool(true), tt.BVConst(uint64(i), 64), tt.ZExt(b, 32)}
			}
			panic(pathEnd{"cut", "non-ASCII byte in range over symbolic string"})
		}
		it.pos++
		return TupleV{tt.Bool(true), tt.BVConst(uint64(i), 64), tt.ZExt(b, 32)}
	}
	for it.pos < len(it.order) {
		i := it.order[it.pos]
		it.pos++
		if it.m.dead[i] {
			continue
		}
		return TupleV{tt.Bool(true), it.m.keys[i], it.m.vals[i]}
	}
	var kz, vz Value
	if it.m != nil {
		kz, vz = e.zero(it.m.ktype), e.zero(it.m.vtype)
	} else {
		tup := x.Type().(*types.Tuple)
		kz, vz = e.zeroOrNil(tup.At(1).Type()), e.zeroOrNil(tup.At(2).Type())
	}
	return TupleV{tt.Bool(false), kz, vz}
}

func (e *Exec) zeroOrNil(t types.Type) Value {
	if b, ok := t.(*types.Basic); ok && b.Kind() == types.Invalid {
		return nil
	}
	return e.zero(t)
}

func decodeRune(s string) (rune, int) {
	for i, r := range s {
		_ = i
		n := len(string(r))
		if r == 0xFFFD {
			// could be a genuine U+FFFD (3 bytes) or an invalid byte (1)
			if len(s) >= 3 && s[:3] == "�" {
				return r, 3
			}
			return r, 1
		}
		return r, n
	}
	return 0, 0
}
