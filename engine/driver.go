package main

import (
	"fmt"
	"math"
	"os"
	"runtime/debug"
	"sort"
	"strings"
	"time"

	"golang.org/x/tools/go/ssa"
)

// ---------- symbolic decisions ----------

func (e *Exec) evalBool(c *Term) (bool, bool) {
	if e.model == nil {
		return false, false
	}
	r := e.tt.Eval(c, e.model, e.evalC)
	if r.Const {
		return r.U == 1, true
	}
	return false, false
}

func (e *Exec) setModel(m Model) {
	e.model = m
	e.evalC = map[*Term]*Term{}
}

// probeModel: when the solvers give up on PC ∧ extra, try a few thousand concrete assignments
// (deterministic pseudo-random, biased to small and boundary values) and evaluate the path condition
// and extra under each. Only ever turns "unknown" into "sat" with a concrete witness, which is then
// replayed natively like any other model; it never produces "unsat".
func (e *Exec) probeModel(extra *Term) Model {
	var pc []*Term
	for _, d := range e.trail {
		switch d.kind {
		case 0:
			if d.chosen == 1 {
				pc = append(pc, d.cond)
			} else {
				pc = append(pc, e.tt.Not(d.cond))
			}
		case 2:
			pc = append(pc, d.cond)
		}
	}
	seed := uint64(0x9E3779B97F4A7C15)
	next := func() uint64 {
		seed ^= seed << 13
		seed ^= seed >> 7
		seed ^= seed << 17
		return seed
	}
	fpVals := []float64{0, 1, -1, 0.5, -0.5, 2, 3, 7, -7, 1.5, 2.5, 1e9, -1e9, math.MaxFloat64, math.SmallestNonzeroFloat64, math.Inf(1), math.Inf(-1), math.NaN()}
	for try := 0; try < 4096; try++ {
		m := Model{}
		for _, v := range e.pathAll {
			switch v.S.K {
			case SBool:
				m[v.Name] = e.tt.Bool(next()&1 == 1)
			case SBV:
				r := next()
				var u uint64
				switch r % 4 {
				case 0:
					u = next() // any pattern
				case 1:
					u = next() % 8 // small
				case 2:
					u = ^uint64(0) - next()%8 // small negative
				default:
					u = uint64(1)<<(next()%64) - next()%2
				}
				if v.S.W < 64 {
					u &= uint64(1)<<uint(v.S.W) - 1
				}
				m[v.Name] = e.tt.BVConst(u, v.S.W)
			default:
				if next()%3 == 0 {
					m[v.Name] = e.tt.FPConst(math.Float64frombits(next()), v.S)
				} else {
					m[v.Name] = e.tt.FPConst(fpVals[next()%uint64(len(fpVals))], v.S)
				}
			}
		}
		cache := map[*Term]*Term{}
		ok := true
		for _, c := range pc {
			if r := e.tt.Eval(c, m, cache); !r.Const || r.U != 1 {
				ok = false
				break
			}
		}
		if !ok {
			continue
		}
		if r := e.tt.Eval(extra, m, cache); r.Const && r.U == 1 {
			e.S.Stats.Probed++
			return m
		}
	}
	return nil
}

// checkSatModel checks PC ∧ extra and returns the model when sat.
func (e *Exec) checkSatModel(extra *Term) (SatResult, Model) {
	r, m := e.checkSatModel0(extra)
	if r == Unknown {
		if pm := e.probeModel(extra); pm != nil {
			return Sat, pm
		}
	}
	return r, m
}

func (e *Exec) checkSatModel0(extra *Term) (SatResult, Model) {
	if e.tt.HasFP(extra) && extra.id > 0 && e.fpHard(extra) {
		// floating-point conversions/arithmetic: z3's incremental core is orders of magnitude slower
		// than its bit-blasting tactics; solve non-incrementally right away.
		r, m := e.S.CheckOneShot(extra, e.pathAll, e.oneShotMs)
		if r == Sat && len(m) == 0 && len(e.pathAll) > 0 {
			m = nil
		}
		return r, m
	}
	e.S.Push()
	e.S.Assert(extra)
	r := e.S.CheckSat()
	var m Model
	if r == Sat {
		m = e.S.GetModel(e.pathAll)
	}
	e.S.Pop(1)
	if r == Unknown {
		// the incremental core gave up within its short budget: solve from scratch, non-incrementally
		r, m = e.S.CheckOneShot(extra, e.pathAll, e.oneShotMs)
		if r == Sat && len(m) == 0 && len(e.pathAll) > 0 {
			m = nil
		}
	}
	return r, m
}

func (e *Exec) pushDecision(d *decision, assert *Term) {
	e.trail = append(e.trail, d)
	e.pos = len(e.trail)
	e.S.Push()
	if assert != nil {
		e.S.Assert(assert)
	}
	if len(e.trail) > e.maxDepth {
		panic(pathEnd{"limit", fmt.Sprintf("decision depth %d exceeded", e.maxDepth) + e.where()})
	}
}

// Branch decides a symbolic condition on this path, forking the exploration when both sides are feasible.
func (e *Exec) Branch(c *Term) bool {
	if c.Const {
		return c.U == 1
	}
	if e.pos < len(e.trail) {
		d := e.trail[e.pos]
		if d.kind != 0 {
			panic(fmt.Sprintf("replay divergence: expected kind %d at %d, got branch%s", d.kind, e.pos, e.where()))
		}
		e.pos++
		return d.chosen == 1
	}
	e.R.Branches++
	tt := e.tt
	var tFeas, fFeas bool
	var tModel, fModel Model
	unknown := false
	if mv, ok := e.evalBool(c); ok {
		e.S.Stats.Skipped++
		if mv {
			tFeas, tModel = true, e.model
			r, m := e.checkSatModel(tt.Not(c))
			fFeas, fModel = r != Unsat, m
			unknown = r == Unknown
		} else {
			fFeas, fModel = true, e.model
			r, m := e.checkSatModel(c)
			tFeas, tModel = r != Unsat, m
			unknown = r == Unknown
		}
	} else {
		r, m := e.checkSatModel(c)
		tFeas, tModel = r != Unsat, m
		if r == Unknown {
			unknown = true
		}
		if r == Unsat {
			fFeas, fModel = true, e.model
		} else {
			r2, m2 := e.checkSatModel(tt.Not(c))
			fFeas, fModel = r2 != Unsat, m2
			if r2 == Unknown {
				unknown = true
			}
		}
	}
	if unknown {
		e.R.UnknownBranches++
		e.R.noteIncon("solver unknown on branch feasibility" + e.where())
	}
	if !tFeas && !fFeas {
		panic(pathEnd{"infeasible", "both branch sides infeasible"})
	}
	d := &decision{kind: 0, cond: c}
	if tFeas {
		d.chosen = 1
		if fFeas {
			d.options = []int{0}
			d.models = []Model{fModel}
		}
		e.pushDecision(d, c)
		if tModel != nil {
			e.setModel(tModel)
		} else if mv, ok := e.evalBool(c); !ok || !mv {
			e.model = nil
		}
		return true
	}
	d.chosen = 0
	e.pushDecision(d, tt.Not(c))
	if fModel != nil {
		e.setModel(fModel)
	} else if mv, ok := e.evalBool(c); !ok || mv {
		e.model = nil
	}
	return false
}

// Choose forks over n alternatives (no constraint).
func (e *Exec) Choose(n int) int {
	if n <= 1 {
		return 0
	}
	if e.pos < len(e.trail) {
		d := e.trail[e.pos]
		if d.kind != 1 {
			panic(fmt.Sprintf("replay divergence: expected kind %d at %d, got choose%s", d.kind, e.pos, e.where()))
		}
		e.pos++
		return d.chosen
	}
	d := &decision{kind: 1, chosen: 0}
	for i := 1; i < n; i++ {
		d.options = append(d.options, i)
		d.models = append(d.models, nil)
	}
	e.pushDecision(d, nil)
	return 0
}

// Assume adds a path constraint; ends the path when it is infeasible.
func (e *Exec) Assume(c *Term) {
	if c.IsTrue() {
		return
	}
	if c.IsFalse() {
		panic(pathEnd{"infeasible", "assume(false)"})
	}
	if e.pos < len(e.trail) {
		d := e.trail[e.pos]
		if d.kind != 2 {
			panic(fmt.Sprintf("replay divergence: expected kind %d at %d, got assume%s", d.kind, e.pos, e.where()))
		}
		e.pos++
		return
	}
	if mv, ok := e.evalBool(c); ok && mv {
		e.S.Stats.Skipped++
		e.pushDecision(&decision{kind: 2, cond: c}, c)
		return
	}
	r, m := e.checkSatModel(c)
	if r == Unsat {
		// record nothing: the path ends here; the decision trail stays consistent because the
		// next path diverges earlier.
		panic(pathEnd{"infeasible", "assume"})
	}
	if r == Unknown {
		e.R.noteIncon("solver unknown on assume" + e.where())
	}
	e.pushDecision(&decision{kind: 2, cond: c}, c)
	if m != nil {
		e.setModel(m)
	} else {
		e.model = nil
	}
}

// Assert checks an obligation. kfID/region: known-finding handling (region may be nil).
func (e *Exec) Assert(c *Term, label string, kfID string, region *Term) {
	tt := e.tt
	e.R.Obligations++
	if c.IsTrue() {
		e.R.Discharged++
		e.R.TrivialObl++
		return
	}
	replaying := e.pos < len(e.trail)
	if replaying {
		// the assertion was already checked on an earlier path with the same prefix; it was then
		// turned into an assumption, which is the next trail entry.
		e.R.Obligations--
		e.Assume(c)
		return
	}
	neg := tt.Not(c)
	kfOpen := kfID != "" && e.kf[kfID] && region != nil
	failed := false
	if kfOpen {
		// inside the region: known finding
		r, m := e.checkSatModel(tt.And(neg, region))
		if r == Sat {
			e.R.noteKnown(e, kfID, label, m)
		} else if r == Unknown {
			e.R.noteIncon("solver unknown on assertion (known region) " + label)
		}
		r2, m2 := e.checkSatModel(tt.And(neg, tt.Not(region)))
		if r2 == Sat {
			failed = true
			e.R.noteViolation(e, label, m2)
		} else if r2 == Unknown {
			e.R.noteIncon("solver unknown on assertion " + label)
		} else if r != Sat {
			e.R.Discharged++
		} else {
			e.R.DischargedModuloKnown++
		}
	} else {
		var r SatResult
		var m Model
		if mv, ok := e.evalBool(c); ok && !mv {
			e.S.Stats.Skipped++
			r, m = Sat, e.model
		} else {
			r, m = e.checkSatModel(neg)
		}
		switch r {
		case Sat:
			failed = true
			e.R.noteViolation(e, label, m)
		case Unknown:
			e.R.noteIncon("solver unknown on assertion " + label)
		default:
			e.R.Discharged++
		}
	}
	_ = failed
	// continue under the assumption that the assertion holds
	e.Assume(c)
}

// ---------- DFS driver ----------

type Violation struct {
	Label   string
	Values  map[string][]string
	Choices []int
	Params  map[string]int64
	Entry   string
	Known   string
}

type JobResult struct {
	Entry                 string
	Params                map[string]int64
	Paths                 int
	PathsByEnd            map[string]int
	Branches              int
	UnknownBranches       int
	Obligations           int
	Discharged            int
	DischargedModuloKnown int
	TrivialObl            int
	Violations            []*Violation
	Known                 []*Violation
	violSeen              map[string]int
	knownSeen             map[string]int
	Incon                 map[string]int
	Covers                map[string]int
	Fns                   map[string]bool
	Samples               []*Violation // sampled passing paths (for differential replay)
	Cuts                  map[string]int
	Solver                SolverStats
	WallS                 float64
	Steps                 int64
	Exhausted             bool
	MaxTrail              int
	Err                   string
}

func (r *JobResult) noteFn(fn *ssa.Function) {
	if fn.Pkg != nil {
		r.Fns[fn.String()] = true
	} else if fn.Parent() != nil || fn.Signature.Recv() != nil {
		r.Fns[fn.String()] = true
	}
}

func (r *JobResult) noteIncon(s string) {
	r.Incon[s]++
}

func (e *Exec) snapshot(label string, m Model) *Violation {
	v := &Violation{Label: label, Values: map[string][]string{}, Params: e.params, Entry: e.R.Entry}
	cache := map[*Term]*Term{}
	for _, nv := range e.pathVars {
		var s string
		val := nv.t
		if m != nil {
			val = e.tt.Eval(nv.t, m, cache)
		}
		if !val.Const {
			val = e.tt.Eval(nv.t, Model{}, cache)
		}
		switch nv.kind {
		case "bool":
			s = fmt.Sprint(val.U)
		case "f64", "f32":
			s = fmt.Sprintf("%x", floatBits(val))
		default:
			s = fmt.Sprint(val.U)
		}
		v.Values[nv.name] = append(v.Values[nv.name], s)
	}
	v.Choices = append([]int(nil), e.choices...)
	return v
}

func (r *JobResult) noteViolation(e *Exec, label string, m Model) {
	if os.Getenv("GOSYM_DEBUG") != "" {
		fmt.Fprintf(os.Stderr, "VIOLATION %s choices=%v\n", label, e.choices)
		for i, d := range e.trail {
			if d.cond != nil {
				fmt.Fprintf(os.Stderr, "  [%d] kind=%d chosen=%d %s\n", i, d.kind, d.chosen, e.tt.SMT(d.cond))
			} else {
				fmt.Fprintf(os.Stderr, "  [%d] kind=%d chosen=%d\n", i, d.kind, d.chosen)
			}
		}
	}
	r.violSeen[label]++
	if r.violSeen[label] > 3 {
		return
	}
	r.Violations = append(r.Violations, e.snapshot(label, m))
}

func (r *JobResult) noteKnown(e *Exec, kf, label string, m Model) {
	r.knownSeen[kf]++
	if r.knownSeen[kf] > 2 {
		return
	}
	v := e.snapshot(label, m)
	v.Known = kf
	r.Known = append(r.Known, v)
}

type JobSpec struct {
	Fixed           *Violation
	Entry           string // function name in package
	Pkg             string // package path
	Params          map[string]int64
	MaxSteps        int64
	MaxDepth        int
	MaxPaths        int
	TimeoutS        float64
	Solver          string
	SolverTimeoutMs int
	IncTimeoutMs    int
	InitPkgs        []string
	Samples         int
}

func RunJob(P *Program, spec JobSpec, kf map[string]bool) *JobResult {
	R := &JobResult{Entry: spec.Entry, Params: spec.Params, PathsByEnd: map[string]int{}, Incon: map[string]int{},
		Covers: map[string]int{}, Fns: map[string]bool{}, Cuts: map[string]int{}, violSeen: map[string]int{}, knownSeen: map[string]int{}}
	t0 := time.Now()
	defer func() { R.WallS = time.Since(t0).Seconds() }()
	pkg := P.pkgs[spec.Pkg]
	if pkg == nil {
		R.Err = "package not loaded: " + spec.Pkg
		return R
	}
	fn := pkg.Func(spec.Entry)
	if fn == nil {
		R.Err = "entry not found: " + spec.Entry
		return R
	}
	tt := NewTermTable()
	sname := spec.Solver
	if sname == "" {
		sname = "z3-new"
	}
	to := spec.SolverTimeoutMs
	if to == 0 {
		to = 30000
	}
	inc := spec.IncTimeoutMs
	if inc == 0 {
		inc = 3000
	}
	S, err := NewSolver(sname, tt, inc)
	if err != nil {
		R.Err = "solver: " + err.Error()
		return R
	}
	defer S.Close()
	e := &Exec{P: P, tt: tt, S: S, R: R, params: spec.Params, kf: kf, initPkgs: map[string]bool{}, oneShotMs: to}
	for _, p := range spec.InitPkgs {
		e.initPkgs[p] = true
	}
	e.fixed = spec.Fixed
	e.maxSteps = spec.MaxSteps
	if e.maxSteps == 0 {
		e.maxSteps = 20_000_000
	}
	e.maxDepth = spec.MaxDepth
	if e.maxDepth == 0 {
		e.maxDepth = 600
	}
	maxPaths := spec.MaxPaths
	if maxPaths == 0 {
		maxPaths = 2_000_000
	}
	if msg := e.initPhase(fn.Pkg); msg != "" {
		R.Err = msg
		return R
	}
	sampleEvery := 1
	for {
		if spec.TimeoutS > 0 && time.Since(t0).Seconds() > spec.TimeoutS {
			R.noteIncon(fmt.Sprintf("job timeout after %d paths", R.Paths))
			break
		}
		if R.Paths >= maxPaths {
			R.noteIncon(fmt.Sprintf("path budget %d exhausted", maxPaths))
			break
		}
		end := e.runPath(fn)
		R.Paths++
		R.PathsByEnd[end.reason]++
		R.Steps += e.steps
		if len(e.trail) > R.MaxTrail {
			R.MaxTrail = len(e.trail)
		}
		if os.Getenv("GOSYM_DEBUG") != "" && end.reason != "ok" {
			fmt.Fprintf(os.Stderr, "path %d end: %s: %s\n", R.Paths, end.reason, end.detail)
		}
		switch end.reason {
		case "ok", "infeasible":
		case "cut":
			R.Cuts[end.detail]++
		case "panic":
			// uncaught panic in the harness: a violation of the implicit no-panic obligation
			R.Obligations++
			R.noteViolation(e, "panic: "+end.detail, e.model)
		case "deadlock":
			R.Obligations++
			R.noteViolation(e, "deadlock: "+end.detail, e.model)
		default:
			R.noteIncon(end.reason + ": " + end.detail)
		}
		if end.reason == "ok" && spec.Samples > 0 {
			if R.Paths%sampleEvery == 0 {
				if len(R.Samples) >= spec.Samples {
					// thin out
					half := R.Samples[:0]
					for i, s := range R.Samples {
						if i%2 == 0 {
							half = append(half, s)
						}
					}
					R.Samples = half
					sampleEvery *= 2
				}
				sv := e.snapshot("", e.model)
				sv.Known = e.observeString()
				R.Samples = append(R.Samples, sv)
			}
		}
		for c := range e.covers {
			R.Covers[c]++
		}
		// backtrack
		i := len(e.trail) - 1
		for i >= 0 && len(e.trail[i].options) == 0 {
			i--
		}
		if i < 0 {
			R.Exhausted = true
			break
		}
		d := e.trail[i]
		S.Pop(len(e.trail) - i)
		e.trail = e.trail[:i]
		nd := &decision{kind: d.kind, cond: d.cond, chosen: d.options[0], options: d.options[1:]}
		var nm Model
		if len(d.models) > 0 {
			nm = d.models[0]
			nd.models = d.models[1:]
		}
		e.trail = append(e.trail, nd)
		S.Push()
		if d.kind == 0 {
			if nd.chosen == 1 {
				S.Assert(d.cond)
			} else {
				S.Assert(tt.Not(d.cond))
			}
		}
		if nm != nil {
			e.setModel(nm)
		} else if d.kind == 0 {
			e.model = nil
		}
		// for Choose the current model stays valid only if it was valid at that point; we cannot know,
		// so recompute lazily: drop it.
		if d.kind == 1 {
			e.model = nil
		}
	}
	R.Solver = S.Stats
	return R
}

func (e *Exec) observeString() string {
	var sb strings.Builder
	cache := map[*Term]*Term{}
	for _, o := range e.observes {
		sb.WriteString(o.name + "=" + e.renderConcrete(o.v, cache) + ";")
	}
	return sb.String()
}

func (e *Exec) renderConcrete(v Value, cache map[*Term]*Term) string {
	switch x := v.(type) {
	case *Term:
		c := x
		if !c.Const {
			m := e.model
			if m == nil {
				m = Model{}
			}
			c = e.tt.Eval(x, m, cache)
			if !c.Const {
				c = e.tt.Eval(x, Model{}, cache)
			}
		}
		switch c.S.K {
		case SBool:
			return fmt.Sprint(c.U == 1)
		case SBV:
			return fmt.Sprint(c.U)
		default:
			return fmt.Sprintf("f%x", floatBits(c))
		}
	case StrV:
		bs := e.strBytes(x)
		out := make([]byte, len(bs))
		for i, b := range bs {
			c := b
			if !c.Const {
				m := e.model
				if m == nil {
					m = Model{}
				}
				c = e.tt.Eval(b, m, cache)
				if !c.Const {
					c = e.tt.Eval(b, Model{}, cache)
				}
			}
			out[i] = byte(c.U)
		}
		return fmt.Sprintf("%q", string(out))
	case IfaceV:
		if x.t == nil {
			return "nil"
		}
		return x.t.String() + ":" + e.renderConcrete(x.v, cache)
	case TimeV:
		if x.zero {
			return "time0"
		}
		return "t" + e.renderConcrete(x.ns, cache)
	}
	return fmt.Sprintf("%T", v)
}

// runPath executes the harness once, following the decision prefix in e.trail.
func (e *Exec) runPath(fn *ssa.Function) (end pathEnd) {
	if os.Getenv("GOSYM_DEBUG") != "" {
		opaqueWhere = e.where // diagnosis only (racy across parallel jobs)
	}
	e.resetPath()
	e.covers = map[string]bool{}
	defer func() {
		if r := recover(); r != nil {
			switch x := r.(type) {
			case pathEnd:
				end = x
			case *PanicV:
				end = pathEnd{"panic", x.msg}
			case blockReq:
				end = pathEnd{"unsupported", "blocking operation outside scheduler: " + x.tag}
			default:
				end = pathEnd{"engine-error", fmt.Sprint(r) + "\n" + string(debug.Stack())}
			}
		}
	}()
	e.RunMain(fn, nil)
	return pathEnd{"ok", ""}
}

func sortedKeys(m map[string]int) []string {
	var ks []string
	for k := range m {
		ks = append(ks, k)
	}
	sort.Strings(ks)
	return ks
}

// fpHard: terms with int<->float conversions or FP arithmetic (not mere comparisons of FP variables).
func (e *Exec) fpHard(t *Term) bool {
	if e.hardMemo == nil {
		e.hardMemo = map[*Term]bool{}
	}
	if v, ok := e.hardMemo[t]; ok {
		return v
	}
	r := false
	switch t.Op {
	case "to_fp_s", "to_fp_u":
		r = t.Args[0].S.W > 32 // narrow integer conversions are cheap for the incremental core
	case "fp.to_sbv", "fp.to_ubv", "fp.mul", "fp.div", "fp.sqrt", "fp.roundToIntegral", "fp.from_bits":
		r = true
	}
	if !r {
		for _, a := range t.Args {
			if e.fpHard(a) {
				r = true
				break
			}
		}
	}
	e.hardMemo[t] = r
	return r
}
