package main

import (
	"bufio"
	"fmt"
	"io"
	"math"
	"os"
	"os/exec"
	"strconv"
	"strings"
	"time"
)

type SolverStats struct {
	Queries      int
	Sat          int
	Unsat        int
	Unknown      int
	Errors       int
	WallS        float64
	MaxS         float64
	Skipped      int // answered by model evaluation / constant folding
	Restarts     int
	HardTimeouts int
	OneShot      int
	Probed       int // unknown turned into sat by concrete probing (witness evaluated, then replayed)
}

type Solver struct {
	name      string
	cmd       *exec.Cmd
	in        io.WriteCloser
	out       *bufio.Reader
	lines     chan string
	tt        *TermTable
	declared  map[string]bool
	depth     int
	Stats     SolverStats
	timeoutMs int
	log       io.Writer
	dead      bool
	// mirror of the assertion stack, so that the process can be restarted
	frames [][]string
}

func solverArgs(name string, timeoutMs int) (string, []string) {
	switch name {
	case "z3":
		return "z3", []string{"-in", fmt.Sprintf("-t:%d", timeoutMs)}
	case "z3-new":
		return "z3-new", []string{"-in", fmt.Sprintf("-t:%d", timeoutMs)}
	case "cvc5":
		return "cvc5", []string{"--incremental", "--produce-models", "--lang=smt2", fmt.Sprintf("--tlimit-per=%d", timeoutMs)}
	}
	return name, nil
}

func NewSolver(name string, tt *TermTable, timeoutMs int) (*Solver, error) {
	s := &Solver{name: name, tt: tt, declared: map[string]bool{}, timeoutMs: timeoutMs}
	s.frames = [][]string{nil}
	if err := s.start(); err != nil {
		return nil, err
	}
	return s, nil
}

func (s *Solver) start() error {
	bin, args := solverArgs(s.name, s.timeoutMs)
	s.cmd = exec.Command(bin, args...)
	in, err := s.cmd.StdinPipe()
	if err != nil {
		return err
	}
	out, err := s.cmd.StdoutPipe()
	if err != nil {
		return err
	}
	s.cmd.Stderr = nil
	if err := s.cmd.Start(); err != nil {
		return err
	}
	s.in = in
	s.out = bufio.NewReaderSize(out, 1<<20)
	s.dead = false
	ch := make(chan string, 1024)
	s.lines = ch
	go func(r *bufio.Reader) {
		for {
			l, err := r.ReadString('\n')
			if l != "" {
				ch <- l
			}
			if err != nil {
				close(ch)
				return
			}
		}
	}(s.out)
	if f := os.Getenv("GOSYM_SMTLOG"); f != "" && s.log == nil {
		lf, _ := os.OpenFile(fmt.Sprintf("%s.%d", f, os.Getpid()), os.O_CREATE|os.O_WRONLY|os.O_APPEND, 0o644)
		s.log = lf
	}
	s.send("(set-option :produce-models true)")
	s.send("(set-option :global-declarations true)")
	if s.name == "cvc5" {
		s.send("(set-logic ALL)")
	}
	return nil
}

func (s *Solver) Close() {
	if s.cmd != nil && s.cmd.Process != nil {
		s.in.Close()
		s.cmd.Process.Kill()
		s.cmd.Wait()
	}
}

func (s *Solver) send(line string) {
	if s.log != nil {
		fmt.Fprintln(s.log, line)
	}
	if _, err := io.WriteString(s.in, line+"\n"); err != nil {
		s.dead = true
	}
}

// readRaw returns the next output line, or ok=false when the solver died or the hard deadline
// (solver timeout + 10 s) passed - some z3 tactics do not honour -t.
func (s *Solver) readRaw() (string, bool) {
	select {
	case l, ok := <-s.lines:
		if !ok {
			s.dead = true
			return "", false
		}
		return l, true
	case <-time.After(time.Duration(s.timeoutMs)*time.Millisecond + 5*time.Second):
		s.dead = true
		s.Stats.HardTimeouts++
		return "", false
	}
}

func (s *Solver) readLine() string {
	l, ok := s.readRaw()
	if !ok {
		return "(error \"solver died\")"
	}
	return strings.TrimSpace(l)
}

func (s *Solver) declareVars(t *Term) {
	var vs []*Term
	CollectVars(t, map[*Term]bool{}, &vs)
	for _, v := range vs {
		if !s.declared[v.Name] {
			s.declared[v.Name] = true
			d := fmt.Sprintf("(declare-fun |%s| () %s)", v.Name, v.S.String())
			s.send(d)
			s.frames[0] = append(s.frames[0], d)
		}
	}
}

func (s *Solver) Push() {
	s.send("(push 1)")
	s.depth++
	s.frames = append(s.frames, nil)
}

func (s *Solver) Pop(n int) {
	if n <= 0 {
		return
	}
	s.send(fmt.Sprintf("(pop %d)", n))
	s.depth -= n
	s.frames = s.frames[:len(s.frames)-n]
}

func (s *Solver) Depth() int { return s.depth }

func (s *Solver) Assert(t *Term) {
	if t.IsTrue() {
		return
	}
	s.declareVars(t)
	a := "(assert " + s.tt.SMT(t) + ")"
	s.send(a)
	s.frames[len(s.frames)-1] = append(s.frames[len(s.frames)-1], a)
}

type SatResult int

const (
	Unsat SatResult = iota
	Sat
	Unknown
)

func (r SatResult) String() string { return [...]string{"unsat", "sat", "unknown"}[r] }

func (s *Solver) restart() {
	s.Stats.Restarts++
	if s.cmd != nil && s.cmd.Process != nil {
		s.cmd.Process.Kill()
		s.cmd.Wait()
	}
	if err := s.start(); err != nil {
		s.dead = true
		return
	}
	for i, fr := range s.frames {
		if i > 0 {
			s.send("(push 1)")
		}
		for _, l := range fr {
			s.send(l)
		}
	}
}

func (s *Solver) CheckSat() SatResult {
	t0 := time.Now()
	s.send("(check-sat)")
	var res SatResult = Unknown
	for {
		l := s.readLine()
		if l == "sat" {
			res = Sat
			break
		}
		if l == "unsat" {
			res = Unsat
			break
		}
		if l == "unknown" || l == "timeout" {
			res = Unknown
			break
		}
		if strings.HasPrefix(l, "(error") {
			s.Stats.Errors++
			if s.dead {
				res = Unknown
				break
			}
			continue // keep reading: an answer line still follows
		}
		if l == "" && s.dead {
			break
		}
	}
	d := time.Since(t0).Seconds()
	s.Stats.Queries++
	s.Stats.WallS += d
	if d > s.Stats.MaxS {
		s.Stats.MaxS = d
	}
	switch res {
	case Sat:
		s.Stats.Sat++
	case Unsat:
		s.Stats.Unsat++
	default:
		s.Stats.Unknown++
	}
	if s.dead {
		s.restart()
	}
	return res
}

// CheckOneShot solves (all asserted frames ∧ extra) in a fresh, non-incremental solver process:
// z3's tactic pipeline (bit-blasting to SAT) is used only without push/pop and is far faster on
// bit-vector/floating-point queries than the incremental core.
func (s *Solver) CheckOneShot(extra *Term, vars []*Term, timeoutMs int) (SatResult, Model) {
	s.declareVars(extra)
	var sb strings.Builder
	sb.WriteString("(set-option :produce-models true)\n")
	for _, fr := range s.frames {
		for _, l := range fr {
			sb.WriteString(l)
			sb.WriteByte('\n')
		}
	}
	sb.WriteString("(assert " + s.tt.SMT(extra) + ")\n(check-sat)\n")
	var ask []*Term
	for _, v := range vars {
		if s.declared[v.Name] {
			ask = append(ask, v)
		}
	}
	getv := ""
	if len(ask) > 0 {
		var g strings.Builder
		g.WriteString("(get-value (")
		for _, v := range ask {
			g.WriteString("|" + v.Name + "| ")
		}
		g.WriteString("))\n")
		getv = g.String()
	}
	try := func(bin string, args []string, script string) (SatResult, string) {
		t0 := time.Now()
		cmd := exec.Command(bin, args...)
		cmd.Stdin = strings.NewReader(script)
		done := make(chan struct{})
		var out []byte
		go func() { out, _ = cmd.Output(); close(done) }()
		select {
		case <-done:
		case <-time.After(time.Duration(timeoutMs)*time.Millisecond + 5*time.Second):
			if cmd.Process != nil {
				cmd.Process.Kill()
			}
			<-done
		}
		d := time.Since(t0).Seconds()
		s.Stats.Queries++
		s.Stats.OneShot++
		s.Stats.WallS += d
		if d > s.Stats.MaxS {
			s.Stats.MaxS = d
		}
		text := string(out)
		first := strings.TrimSpace(strings.SplitN(text, "\n", 2)[0])
		switch first {
		case "sat":
			s.Stats.Sat++
			return Sat, text
		case "unsat":
			s.Stats.Unsat++
			return Unsat, text
		}
		s.Stats.Unknown++
		return Unknown, text
	}
	script := sb.String()
	r, text := try("z3", []string{"-in", fmt.Sprintf("-t:%d", timeoutMs)}, script+getv)
	if r == Unknown {
		r, text = try("cvc5", []string{"--lang=smt2", "--produce-models", fmt.Sprintf("--tlimit=%d", timeoutMs)}, "(set-logic ALL)\n"+script+getv)
		if r != Unknown {
			s.Stats.Unknown-- // resolved by the second back end
		}
	}
	if r != Sat {
		return r, nil
	}
	m := Model{}
	if i := strings.Index(text, "\n"); i >= 0 && len(ask) > 0 {
		s.parseValues(text[i+1:], ask, m)
	}
	return r, m
}

// CheckWith: push, assert extra, check, pop.
func (s *Solver) CheckWith(extra ...*Term) SatResult {
	s.Push()
	for _, t := range extra {
		s.Assert(t)
	}
	r := s.CheckSat()
	s.Pop(1)
	return r
}

// readSexp reads one balanced s-expression from the solver.
func (s *Solver) readSexp() string {
	var sb strings.Builder
	depth := 0
	started := false
	inBar := false
	for {
		l, ok := s.readRaw()
		if !ok {
			return sb.String()
		}
		sb.WriteString(l)
		for i := 0; i < len(l); i++ {
			c := l[i]
			if c == '|' {
				inBar = !inBar
				continue
			}
			if inBar {
				continue
			}
			if c == '(' {
				depth++
				started = true
			} else if c == ')' {
				depth--
			}
		}
		if started && depth <= 0 {
			return sb.String()
		}
	}
}

// GetModel reads values of the given variables (must follow a Sat CheckSat at the same stack state).
func (s *Solver) GetModel(vars []*Term) Model {
	m := Model{}
	var ask []*Term
	for _, v := range vars {
		if s.declared[v.Name] {
			ask = append(ask, v)
		}
	}
	const chunk = 200
	for i := 0; i < len(ask); i += chunk {
		j := i + chunk
		if j > len(ask) {
			j = len(ask)
		}
		var sb strings.Builder
		sb.WriteString("(get-value (")
		for _, v := range ask[i:j] {
			sb.WriteString("|" + v.Name + "| ")
		}
		sb.WriteString("))")
		s.send(sb.String())
		resp := s.readSexp()
		if strings.Contains(resp, "(error") {
			s.Stats.Errors++
			continue
		}
		s.parseValues(resp, ask[i:j], m)
	}
	return m
}

type sx struct {
	atom string
	list []*sx
}

func parseSx(src string) *sx {
	pos := 0
	var parse func() *sx
	parse = func() *sx {
		for pos < len(src) && (src[pos] == ' ' || src[pos] == '\n' || src[pos] == '\t' || src[pos] == '\r') {
			pos++
		}
		if pos >= len(src) {
			return nil
		}
		if src[pos] == '(' {
			pos++
			n := &sx{list: []*sx{}}
			for {
				for pos < len(src) && (src[pos] == ' ' || src[pos] == '\n' || src[pos] == '\t' || src[pos] == '\r') {
					pos++
				}
				if pos >= len(src) {
					return n
				}
				if src[pos] == ')' {
					pos++
					return n
				}
				c := parse()
				if c == nil {
					return n
				}
				n.list = append(n.list, c)
			}
		}
		start := pos
		if src[pos] == '|' {
			pos++
			for pos < len(src) && src[pos] != '|' {
				pos++
			}
			pos++
			return &sx{atom: src[start+1 : pos-1]}
		}
		for pos < len(src) && src[pos] != ' ' && src[pos] != ')' && src[pos] != '(' && src[pos] != '\n' {
			pos++
		}
		return &sx{atom: src[start:pos]}
	}
	return parse()
}

func parseBVAtom(a string) (uint64, int, bool) {
	if strings.HasPrefix(a, "#x") {
		u, err := strconv.ParseUint(a[2:], 16, 64)
		return u, 4 * (len(a) - 2), err == nil
	}
	if strings.HasPrefix(a, "#b") {
		u, err := strconv.ParseUint(a[2:], 2, 64)
		return u, len(a) - 2, err == nil
	}
	return 0, 0, false
}

func (s *Solver) parseValue(v *sx, srt Sort) (*Term, bool) {
	tt := s.tt
	switch srt.K {
	case SBool:
		if v.atom == "true" {
			return tt.Bool(true), true
		}
		if v.atom == "false" {
			return tt.Bool(false), true
		}
	case SBV:
		if v.atom != "" {
			if u, _, ok := parseBVAtom(v.atom); ok {
				return tt.BVConst(u, srt.W), true
			}
		} else if len(v.list) == 3 && v.list[0].atom == "_" && strings.HasPrefix(v.list[1].atom, "bv") {
			u, err := strconv.ParseUint(v.list[1].atom[2:], 10, 64)
			if err == nil {
				return tt.BVConst(u, srt.W), true
			}
		}
	default:
		if len(v.list) == 4 && v.list[0].atom == "fp" {
			sg, _, ok1 := parseBVAtom(v.list[1].atom)
			ex, _, ok2 := parseBVAtom(v.list[2].atom)
			mn, _, ok3 := parseBVAtom(v.list[3].atom)
			if ok1 && ok2 && ok3 {
				if srt.K == SFP32 {
					b := uint32(sg)<<31 | uint32(ex)<<23 | uint32(mn)
					return tt.FPConst(float64(math.Float32frombits(b)), srt), true
				}
				b := sg<<63 | ex<<52 | mn
				return tt.FPConst(math.Float64frombits(b), srt), true
			}
		} else if len(v.list) == 4 && v.list[0].atom == "_" {
			switch v.list[1].atom {
			case "+zero":
				return tt.FPConst(0, srt), true
			case "-zero":
				return tt.FPConst(math.Copysign(0, -1), srt), true
			case "+oo":
				return tt.FPConst(math.Inf(1), srt), true
			case "-oo":
				return tt.FPConst(math.Inf(-1), srt), true
			case "NaN":
				return tt.FPConst(math.NaN(), srt), true
			}
		}
	}
	return nil, false
}

func (s *Solver) parseValues(resp string, vars []*Term, m Model) {
	root := parseSx(resp)
	if root == nil {
		return
	}
	byName := map[string]*Term{}
	for _, v := range vars {
		byName[v.Name] = v
	}
	for _, pair := range root.list {
		if len(pair.list) != 2 {
			continue
		}
		v, ok := byName[pair.list[0].atom]
		if !ok {
			continue
		}
		if c, ok := s.parseValue(pair.list[1], v.S); ok {
			m[v.Name] = c
		} else {
			s.Stats.Errors++
		}
	}
}
