package main

import (
	"fmt"
	"go/types"
	"os"

	"golang.org/x/tools/go/ssa"
)

// runBody interprets the real SSA body of fn (bypassing the intrinsic table).
func (e *Exec) runBody(fn *ssa.Function, args []Value) Value {
	if fn.Blocks == nil {
		e.unsupported("no body for " + fn.String())
	}
	g := e.cur
	base := len(g.stack)
	fr := e.pushFrame(g, fn, args, nil, nil)
	fr.boundary = true
	e.nestDepth++
	defer func() { e.nestDepth-- }()
	res, pv := e.runNested(g, base)
	if pv != nil {
		panic(pv)
	}
	return res
}

func (e *Exec) matchAt(s, sub []*Term, i int) *Term {
	tt := e.tt
	r := tt.Bool(true)
	for j := range sub {
		r = tt.And(r, tt.Eq(s[i+j], sub[j]))
		if r.IsFalse() {
			break
		}
	}
	return r
}

func (e *Exec) allASCII(bs []*Term, what string) {
	tt := e.tt
	r := tt.Bool(true)
	for _, b := range bs {
		r = tt.And(r, tt.ULt(b, tt.BVConst(0x80, 8)))
	}
	if !r.IsTrue() {
		if r.IsFalse() || !e.Branch(r) {
			panic(pathEnd{"cut", "non-ASCII byte in " + what})
		}
	}
}

func (e *Exec) lowerByte(b *Term) *Term {
	tt := e.tt
	isu := tt.And(tt.ULe(tt.BVConst('A', 8), b), tt.ULe(b, tt.BVConst('Z', 8)))
	return tt.Ite(isu, tt.Add(b, tt.BVConst(32, 8)), b)
}

func (e *Exec) upperByte(b *Term) *Term {
	tt := e.tt
	isl := tt.And(tt.ULe(tt.BVConst('a', 8), b), tt.ULe(b, tt.BVConst('z', 8)))
	return tt.Ite(isl, tt.Sub(b, tt.BVConst(32, 8)), b)
}

func (e *Exec) isSpaceByte(b *Term) *Term {
	tt := e.tt
	return tt.Or(tt.Eq(b, tt.BVConst(' ', 8)), tt.And(tt.ULe(tt.BVConst('\t', 8), b), tt.ULe(b, tt.BVConst('\r', 8))))
}

func (e *Exec) inSet(b *Term, set string) *Term {
	tt := e.tt
	r := tt.Bool(false)
	for i := 0; i < len(set); i++ {
		r = tt.Or(r, tt.Eq(b, tt.BVConst(uint64(set[i]), 8)))
	}
	return r
}

// strModel: models of string functions for symbolic byte strings.
func (e *Exec) strModel(fn *ssa.Function, name string, a []Value) Value {
	tt := e.tt
	i64 := func(i int) *Term { return tt.BVConst(uint64(int64(i)), 64) }
	switch name {
	case "strings.HasPrefix":
		s, p := e.strBytes(a[0].(StrV)), e.strBytes(a[1].(StrV))
		if len(p) > len(s) {
			return tt.Bool(false)
		}
		return e.matchAt(s, p, 0)
	case "strings.HasSuffix":
		s, p := e.strBytes(a[0].(StrV)), e.strBytes(a[1].(StrV))
		if len(p) > len(s) {
			return tt.Bool(false)
		}
		return e.matchAt(s, p, len(s)-len(p))
	case "strings.Contains":
		s, p := e.strBytes(a[0].(StrV)), e.strBytes(a[1].(StrV))
		r := tt.Bool(false)
		for i := 0; i+len(p) <= len(s); i++ {
			r = tt.Or(r, e.matchAt(s, p, i))
		}
		return r
	case "strings.Index":
		s, p := e.strBytes(a[0].(StrV)), e.strBytes(a[1].(StrV))
		r := i64(-1)
		for i := len(s) - len(p); i >= 0; i-- {
			r = tt.Ite(e.matchAt(s, p, i), i64(i), r)
		}
		return r
	case "strings.LastIndex":
		s, p := e.strBytes(a[0].(StrV)), e.strBytes(a[1].(StrV))
		r := i64(-1)
		for i := 0; i+len(p) <= len(s); i++ {
			r = tt.Ite(e.matchAt(s, p, i), i64(i), r)
		}
		return r
	case "strings.IndexByte":
		s := e.strBytes(a[0].(StrV))
		b := a[1].(*Term)
		r := i64(-1)
		for i := len(s) - 1; i >= 0; i-- {
			r = tt.Ite(tt.Eq(s[i], b), i64(i), r)
		}
		return r
	case "strings.IndexRune":
		s := e.strBytes(a[0].(StrV))
		rn := a[1].(*Term)
		e.allASCII(s, name)
		if !e.Branch(tt.ULt(rn, tt.BVConst(0x80, 32))) {
			return i64(-1)
		}
		b := tt.Extract(rn, 7, 0)
		r := i64(-1)
		for i := len(s) - 1; i >= 0; i-- {
			r = tt.Ite(tt.Eq(s[i], b), i64(i), r)
		}
		return r
	case "strings.ContainsAny", "strings.IndexAny":
		s := e.strBytes(a[0].(StrV))
		set := a[1].(StrV)
		if !set.IsConcrete() {
			e.unsupported(name + " with symbolic set")
		}
		e.allASCII(s, name)
		r := i64(-1)
		for i := len(s) - 1; i >= 0; i-- {
			r = tt.Ite(e.inSet(s[i], set.Concrete()), i64(i), r)
		}
		if name == "strings.ContainsAny" {
			return tt.Not(tt.Eq(r, i64(-1)))
		}
		return r
	case "strings.EqualFold":
		s, p := e.strBytes(a[0].(StrV)), e.strBytes(a[1].(StrV))
		e.allASCII(s, name)
		e.allASCII(p, name)
		if len(s) != len(p) {
			return tt.Bool(false)
		}
		r := tt.Bool(true)
		for i := range s {
			r = tt.And(r, tt.Eq(e.lowerByte(s[i]), e.lowerByte(p[i])))
		}
		return r
	case "strings.Compare":
		x, y := a[0].(StrV), a[1].(StrV)
		return tt.Ite(e.strLess(x, y), i64(-1), tt.Ite(e.strEq(x, y), i64(0), i64(1)))
	case "strings.ToLower", "strings.ToUpper":
		s := e.strBytes(a[0].(StrV))
		e.allASCII(s, name)
		out := make([]*Term, len(s))
		for i, b := range s {
			if name == "strings.ToLower" {
				out[i] = e.lowerByte(b)
			} else {
				out[i] = e.upperByte(b)
			}
		}
		return e.mkStr(out)
	case "strings.TrimSpace":
		sv := a[0].(StrV)
		s := e.strBytes(sv)
		e.allASCII(s, name)
		lo, hi := 0, len(s)
		for lo < hi && e.Branch(e.isSpaceByte(s[lo])) {
			lo++
		}
		for hi > lo && e.Branch(e.isSpaceByte(s[hi-1])) {
			hi--
		}
		return e.strSub(sv, lo, hi)
	case "strings.Trim", "strings.TrimLeft", "strings.TrimRight":
		sv := a[0].(StrV)
		set := a[1].(StrV)
		if !set.IsConcrete() {
			e.unsupported(name + " with symbolic cutset")
		}
		s := e.strBytes(sv)
		e.allASCII(s, name)
		lo, hi := 0, len(s)
		if name != "strings.TrimRight" {
			for lo < hi && e.Branch(e.inSet(s[lo], set.Concrete())) {
				lo++
			}
		}
		if name != "strings.TrimLeft" {
			for hi > lo && e.Branch(e.inSet(s[hi-1], set.Concrete())) {
				hi--
			}
		}
		return e.strSub(sv, lo, hi)
	case "strings.TrimPrefix":
		sv, pv := a[0].(StrV), a[1].(StrV)
		if pv.Len() <= sv.Len() && e.Branch(e.strModel(fn, "strings.HasPrefix", a).(*Term)) {
			return e.strSub(sv, pv.Len(), sv.Len())
		}
		return sv
	case "strings.TrimSuffix":
		sv, pv := a[0].(StrV), a[1].(StrV)
		if pv.Len() <= sv.Len() && e.Branch(e.strModel(fn, "strings.HasSuffix", a).(*Term)) {
			return e.strSub(sv, 0, sv.Len()-pv.Len())
		}
		return sv
	case "strings.Count":
		s, p := e.strBytes(a[0].(StrV)), e.strBytes(a[1].(StrV))
		if len(p) == 1 {
			r := i64(0)
			for i := range s {
				r = tt.Add(r, tt.Ite(tt.Eq(s[i], p[0]), i64(1), i64(0)))
			}
			return r
		}
	case "strings.Split", "strings.SplitN":
		sv, sepv := a[0].(StrV), a[1].(StrV)
		if name == "strings.SplitN" {
			if n := argInt(e, a[2], name); n >= 0 {
				break
			}
		}
		s, sep := e.strBytes(sv), e.strBytes(sepv)
		if len(sep) == 0 {
			break
		}
		var parts []Value
		start := 0
		i := 0
		for i+len(sep) <= len(s) {
			if e.Branch(e.matchAt(s, sep, i)) {
				parts = append(parts, e.strSub(sv, start, i))
				i += len(sep)
				start = i
			} else {
				i++
			}
		}
		parts = append(parts, e.strSub(sv, start, len(s)))
		return e.sliceFrom(types.Typ[types.String], parts)
	case "strings.Fields":
		sv := a[0].(StrV)
		s := e.strBytes(sv)
		e.allASCII(s, name)
		var parts []Value
		start := -1
		for i := 0; i < len(s); i++ {
			if e.Branch(e.isSpaceByte(s[i])) {
				if start >= 0 {
					parts = append(parts, e.strSub(sv, start, i))
					start = -1
				}
			} else if start < 0 {
				start = i
			}
		}
		if start >= 0 {
			parts = append(parts, e.strSub(sv, start, len(s)))
		}
		if parts == nil {
			return SliceV{}
		}
		return e.sliceFrom(types.Typ[types.String], parts)
	case "strings.ReplaceAll", "strings.Replace":
		sv, ov, nv := a[0].(StrV), a[1].(StrV), a[2].(StrV)
		if name == "strings.Replace" {
			if n := argInt(e, a[3], name); n >= 0 {
				break
			}
		}
		s, o := e.strBytes(sv), e.strBytes(ov)
		if len(o) == 0 {
			break
		}
		out := StrV{}
		start := 0
		i := 0
		for i+len(o) <= len(s) {
			if e.Branch(e.matchAt(s, o, i)) {
				out = e.strConcat(out, e.strSub(sv, start, i))
				out = e.strConcat(out, nv)
				i += len(o)
				start = i
			} else {
				i++
			}
		}
		return e.strConcat(out, e.strSub(sv, start, len(s)))
	}
	// no symbolic model: when the arguments carry only a few symbolic bytes, enumerate their feasible
	// values (one path per value, decided bit by bit) and call the native function on concrete strings
	if cs, ok := e.concretizeStrArgs(a, 3); ok {
		if os.Getenv("GOSYM_DEBUG") != "" {
			fmt.Fprintf(os.Stderr, "concretize %s%s\n", name, e.where())
		}
		if f := intrinsics[name]; f != nil {
			return f(e, fn, cs, nil)
		}
	}
	e.unsupported(fmt.Sprintf("%s on symbolic string (no model)", name))
	return nil
}

// concretizeStr forks the path over the feasible values of the symbolic bytes of s (a binary
// decision per bit, so every leaf path has a single value) and returns the concrete string.
func (e *Exec) concretizeStr(s StrV) StrV {
	if s.opq != nil {
		opaqueInspect()
	}
	if s.sym == nil {
		return s
	}
	out := make([]byte, len(s.sym))
	for i, b := range s.sym {
		if b.Const {
			out[i] = byte(b.U)
			continue
		}
		var v byte
		for bit := 7; bit >= 0; bit-- {
			if e.Branch(e.tt.Eq(e.tt.Extract(b, bit, bit), e.tt.BVConst(1, 1))) {
				v |= 1 << uint(bit)
			}
		}
		out[i] = v
	}
	return StrV{s: string(out)}
}

func symByteCount(v Value) int {
	s, ok := v.(StrV)
	if !ok || s.sym == nil {
		return 0
	}
	n := 0
	for _, b := range s.sym {
		if !b.Const {
			n++
		}
	}
	return n
}

// concretizeStrArgs concretizes every string argument when together they hold at most max symbolic bytes.
func (e *Exec) concretizeStrArgs(a []Value, max int) ([]Value, bool) {
	total := 0
	for _, v := range a {
		if s, ok := v.(StrV); ok && s.opq != nil {
			return nil, false
		}
		total += symByteCount(v)
	}
	if total == 0 || total > max {
		return nil, false
	}
	out := make([]Value, len(a))
	for i, v := range a {
		if s, ok := v.(StrV); ok {
			out[i] = e.concretizeStr(s)
		} else {
			out[i] = v
		}
	}
	return out, true
}

// formatFloatSym: strconv.FormatFloat(f,'f',-1,64) of a symbolic float is opaque; two renderings are
// equal iff the values are equal as floats of the same sign (the shortest round-trip representation is
// injective on non-NaN values; NaN renders as "NaN").
func (e *Exec) formatFloatSym(t *Term, a []Value) Value {
	return StrV{opq: &opaqueStr{parts: []opaquePart{{kind: 4, dec: t}}}}
}

func init() {
	I := intrinsics
	I["(*strings.Builder).Grow"] = func(e *Exec, fn *ssa.Function, a []Value, c *Frame) Value { return nil }
	I["(*strings.Builder).WriteString"] = func(e *Exec, fn *ssa.Function, a []Value, c *Frame) Value {
		k := ptrKey(a[0])
		s := a[1].(StrV)
		e.builders[k] = e.strConcat(e.builders[k], s)
		n := 0
		if s.opq == nil {
			n = s.Len()
		}
		return TupleV{e.tt.BVConst(uint64(n), 64), IfaceV{}}
	}
	I["(*strings.Builder).WriteByte"] = func(e *Exec, fn *ssa.Function, a []Value, c *Frame) Value {
		k := ptrKey(a[0])
		e.builders[k] = e.strConcat(e.builders[k], e.mkStr([]*Term{a[1].(*Term)}))
		return IfaceV{}
	}
	I["(*strings.Builder).WriteRune"] = func(e *Exec, fn *ssa.Function, a []Value, c *Frame) Value {
		k := ptrKey(a[0])
		r := a[1].(*Term)
		if r.Const {
			s := string(rune(sext(r.U, 32)))
			e.builders[k] = e.strConcat(e.builders[k], StrV{s: s})
			return TupleV{e.tt.BVConst(uint64(len(s)), 64), IfaceV{}}
		}
		if !e.Branch(e.tt.ULt(r, e.tt.BVConst(0x80, 32))) {
			panic(pathEnd{"cut", "non-ASCII symbolic rune in strings.Builder.WriteRune"})
		}
		e.builders[k] = e.strConcat(e.builders[k], e.mkStr([]*Term{e.tt.Extract(r, 7, 0)}))
		return TupleV{e.tt.BVConst(1, 64), IfaceV{}}
	}
	I["(*strings.Builder).Write"] = func(e *Exec, fn *ssa.Function, a []Value, c *Frame) Value {
		k := ptrKey(a[0])
		elems := e.sliceElems(a[1].(SliceV))
		bs := make([]*Term, len(elems))
		for i, x := range elems {
			bs[i] = x.(*Term)
		}
		e.builders[k] = e.strConcat(e.builders[k], e.mkStr(bs))
		return TupleV{e.tt.BVConst(uint64(len(bs)), 64), IfaceV{}}
	}
	I["(*strings.Builder).String"] = func(e *Exec, fn *ssa.Function, a []Value, c *Frame) Value {
		return e.builders[ptrKey(a[0])]
	}
	I["(*strings.Builder).Len"] = func(e *Exec, fn *ssa.Function, a []Value, c *Frame) Value {
		return e.tt.BVConst(uint64(e.builders[ptrKey(a[0])].Len()), 64)
	}
	I["(*strings.Builder).Reset"] = func(e *Exec, fn *ssa.Function, a []Value, c *Frame) Value {
		delete(e.builders, ptrKey(a[0]))
		return nil
	}
}

func init() {
	// sort.Slice / sort.SliceStable use reflectlite.Swapper; modelled as a stable insertion sort that
	// calls the real less function and swaps the elements of the slice in place.
	stable := func(e *Exec, fn *ssa.Function, a []Value, c *Frame) Value {
		iv, ok := a[0].(IfaceV)
		if !ok {
			e.unsupported("sort.Slice on non-interface")
		}
		sl, ok := iv.v.(SliceV)
		if !ok {
			e.runtimePanic("sort: argument is not a slice")
		}
		if sl.len < 2 {
			return nil
		}
		arr := sl.arr
		for i := 1; i < sl.len; i++ {
			for j := i; j > 0; j-- {
				r := e.callFunction(a[1], []Value{e.tt.BVConst(uint64(j), 64), e.tt.BVConst(uint64(j-1), 64)})
				t := r.(*Term)
				var lt bool
				if t.Const {
					lt = t.U == 1
				} else {
					lt = e.Branch(t)
				}
				if !lt {
					break
				}
				e.touch(arr)
				av := arr.val.(ArrayV)
				av[sl.off+j], av[sl.off+j-1] = av[sl.off+j-1], av[sl.off+j]
			}
		}
		return nil
	}
	intrinsics["sort.SliceStable"] = stable
	intrinsics["sort.Slice"] = stable
}
