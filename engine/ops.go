package main

import (
	"fmt"
	"go/token"
	"go/types"
	"math"
	"unicode/utf8"

	"golang.org/x/tools/go/ssa"
)

func basicOf(t types.Type) *types.Basic {
	b, _ := t.Underlying().(*types.Basic)
	return b
}

func (e *Exec) binop(op token.Token, a, b Value, ta, tb types.Type) Value {
	tt := e.tt
	switch x := a.(type) {
	case *Term:
		y, ok := b.(*Term)
		if !ok {
			e.unsupported(fmt.Sprintf("binop %s on Term and %T", op, b))
		}
		switch x.S.K {
		case SBool:
			switch op {
			case token.EQL:
				return tt.Eq(x, y)
			case token.NEQ:
				return tt.Not(tt.Eq(x, y))
			case token.AND, token.LAND:
				return tt.And(x, y)
			case token.OR, token.LOR:
				return tt.Or(x, y)
			}
		case SFP64, SFP32:
			switch op {
			case token.ADD:
				return tt.FBin("fp.add", x, y)
			case token.SUB:
				return tt.FBin("fp.sub", x, y)
			case token.MUL:
				return tt.FBin("fp.mul", x, y)
			case token.QUO:
				return tt.FBin("fp.div", x, y)
			case token.EQL:
				return tt.FCmp("fp.eq", x, y)
			case token.NEQ:
				return tt.Not(tt.FCmp("fp.eq", x, y))
			case token.LSS:
				return tt.FCmp("fp.lt", x, y)
			case token.LEQ:
				return tt.FCmp("fp.leq", x, y)
			case token.GTR:
				return tt.FCmp("fp.lt", y, x)
			case token.GEQ:
				return tt.FCmp("fp.leq", y, x)
			}
		case SBV:
			_, signed, _ := intWidth(basicOf(ta))
			switch op {
			case token.ADD:
				return tt.Add(x, y)
			case token.SUB:
				return tt.Sub(x, y)
			case token.MUL:
				return tt.Mul(x, y)
			case token.QUO, token.REM:
				z := tt.Eq(y, tt.BVConst(0, y.S.W))
				if !z.IsFalse() {
					if z.IsTrue() || e.Branch(z) {
						e.runtimePanic("runtime error: integer divide by zero")
					}
				}
				if op == token.QUO {
					if signed {
						return tt.SDiv(x, y)
					}
					return tt.UDiv(x, y)
				}
				if signed {
					// SMT bvsrem: sign follows dividend, as in Go. MinInt % -1 == 0 in both.
					return tt.SRem(x, y)
				}
				return tt.URem(x, y)
			case token.AND:
				return tt.BAnd(x, y)
			case token.OR:
				return tt.BOr(x, y)
			case token.XOR:
				return tt.BXor(x, y)
			case token.AND_NOT:
				return tt.BAnd(x, tt.BNot(y))
			case token.SHL, token.SHR:
				_, ysigned, _ := intWidth(basicOf(tb))
				if ysigned {
					neg := tt.SLt(y, tt.BVConst(0, y.S.W))
					if !neg.IsFalse() {
						if neg.IsTrue() || e.Branch(neg) {
							e.runtimePanic("runtime error: negative shift amount")
						}
					}
				}
				// bring the count to the width of x, saturating
				w := x.S.W
				var cnt *Term
				if y.S.W == w {
					cnt = y
				} else if y.S.W < w {
					cnt = tt.ZExt(y, w)
				} else {
					big := tt.Not(tt.ULt(y, tt.BVConst(uint64(w), y.S.W)))
					cnt = tt.Ite(big, tt.BVConst(uint64(w), w), tt.Extract(y, w-1, 0))
				}
				if op == token.SHL {
					return tt.Shl(x, cnt)
				}
				if signed {
					return tt.AShr(x, cnt)
				}
				return tt.LShr(x, cnt)
			case token.EQL:
				return tt.Eq(x, y)
			case token.NEQ:
				return tt.Not(tt.Eq(x, y))
			case token.LSS:
				if signed {
					return tt.SLt(x, y)
				}
				return tt.ULt(x, y)
			case token.LEQ:
				if signed {
					return tt.SLe(x, y)
				}
				return tt.ULe(x, y)
			case token.GTR:
				if signed {
					return tt.SLt(y, x)
				}
				return tt.ULt(y, x)
			case token.GEQ:
				if signed {
					return tt.SLe(y, x)
				}
				return tt.ULe(y, x)
			}
		}
	case StrV:
		y := b.(StrV)
		switch op {
		case token.ADD:
			return e.strConcat(x, y)
		case token.EQL:
			return e.strEq(x, y)
		case token.NEQ:
			return tt.Not(e.strEq(x, y))
		case token.LSS:
			return e.strLess(x, y)
		case token.GTR:
			return e.strLess(y, x)
		case token.LEQ:
			return tt.Not(e.strLess(y, x))
		case token.GEQ:
			return tt.Not(e.strLess(x, y))
		}
	}
	switch op {
	case token.EQL:
		return e.valEq(a, b, ta)
	case token.NEQ:
		return tt.Not(e.valEq(a, b, ta))
	}
	e.unsupported(fmt.Sprintf("binop %s on %T,%T", op, a, b))
	return nil
}

func (e *Exec) unop(g *Goroutine, f *Frame, x *ssa.UnOp) Value {
	tt := e.tt
	v := e.get(f, x.X)
	switch x.Op {
	case token.MUL: // load
		p, ok := v.(PtrV)
		if !ok {
			e.unsupported(fmt.Sprintf("load through %T", v))
		}
		return e.load(p)
	case token.NOT:
		return tt.Not(v.(*Term))
	case token.SUB:
		t := v.(*Term)
		if isFP(t.S) {
			return tt.FNeg(t)
		}
		return tt.Neg(t)
	case token.XOR:
		return tt.BNot(v.(*Term))
	case token.ARROW:
		ch := v.(ChanV)
		val, ok := e.chanRecv(ch)
		if x.CommaOk {
			return TupleV{val, tt.Bool(ok)}
		}
		return val
	}
	e.unsupported("unop " + x.Op.String())
	return nil
}

// ---------- conversions ----------

func (e *Exec) convert(v Value, from, to types.Type) Value {
	tt := e.tt
	fu, tu := from.Underlying(), to.Underlying()
	if fb, ok := fu.(*types.Basic); ok {
		if tb, ok := tu.(*types.Basic); ok {
			fw, fsigned, fint := intWidth(fb)
			tw, tsigned, tint := intWidth(tb)
			_ = fw
			switch {
			case fint && tint:
				t := v.(*Term)
				if tw <= t.S.W {
					return tt.Extract(t, tw-1, 0)
				}
				if fsigned {
					return tt.SExt(t, tw)
				}
				return tt.ZExt(t, tw)
			case fint && (tb.Kind() == types.Float64 || tb.Kind() == types.Float32):
				s := FP64Sort
				if tb.Kind() == types.Float32 {
					s = FP32Sort
				}
				return tt.IntToFP(v.(*Term), fsigned, s)
			case (fb.Kind() == types.Float64 || fb.Kind() == types.Float32 || fb.Kind() == types.UntypedFloat) && tint:
				return e.floatToInt(v.(*Term), tw, tsigned)
			case (fb.Kind() == types.Float64 || fb.Kind() == types.Float32 || fb.Kind() == types.UntypedFloat) && (tb.Kind() == types.Float64 || tb.Kind() == types.Float32):
				s := FP64Sort
				if tb.Kind() == types.Float32 {
					s = FP32Sort
				}
				return tt.FPToFP(v.(*Term), s)
			case fint && tb.Kind() == types.String:
				t := v.(*Term)
				if !t.Const {
					// ASCII runes render as one byte; anything else needs UTF-8 encoding of a symbolic value
					if !e.Branch(tt.ULt(t, tt.BVConst(0x80, t.S.W))) {
						panic(pathEnd{"cut", "non-ASCII symbolic rune in string(rune)"})
					}
					return e.mkStr([]*Term{tt.Extract(t, 7, 0)})
				}
				r := rune(sext(t.U, t.S.W))
				if !fsigned {
					r = rune(t.U)
					if t.U > 0x10FFFF {
						r = utf8.RuneError
					}
				}
				return StrV{s: string(r)}
			case fb.Kind() == types.String && tb.Kind() == types.String:
				return v
			case fb.Kind() == types.UnsafePointer && tb.Kind() == types.UnsafePointer:
				return v
			case fb.Info()&types.IsBoolean != 0 && tb.Info()&types.IsBoolean != 0:
				return v
			}
		}
		if ts, ok := tu.(*types.Slice); ok && fb.Info()&types.IsString != 0 {
			s := v.(StrV)
			eb := basicOf(ts.Elem())
			if eb != nil && eb.Kind() == types.Uint8 {
				bs := e.strBytes(s)
				vals := make([]Value, len(bs))
				for i, b := range bs {
					vals[i] = b
				}
				return e.sliceFrom(ts.Elem(), vals)
			}
			if eb != nil && eb.Kind() == types.Int32 {
				if !s.IsConcrete() {
					// ASCII assumption, checked
					bs := s.sym
					vals := make([]Value, len(bs))
					for i, b := range bs {
						if !b.Const || b.U >= 0x80 {
							if !e.Branch(tt.ULt(b, tt.BVConst(0x80, 8))) {
								panic(pathEnd{"cut", "non-ASCII byte in []rune(symbolic string)"})
							}
						}
						vals[i] = tt.ZExt(b, 32)
					}
					return e.sliceFrom(ts.Elem(), vals)
				}
				rs := []rune(s.Concrete())
				vals := make([]Value, len(rs))
				for i, r := range rs {
					vals[i] = tt.BVConst(uint64(r), 32)
				}
				return e.sliceFrom(ts.Elem(), vals)
			}
		}
		if fb.Kind() == types.UnsafePointer {
			if _, ok := tu.(*types.Pointer); ok {
				e.unsupported("unsafe.Pointer -> typed pointer conversion (reinterpretation of memory)")
			}
		}
	}
	if fs, ok := fu.(*types.Slice); ok {
		if tb, ok := tu.(*types.Basic); ok && tb.Info()&types.IsString != 0 {
			sv := v.(SliceV)
			eb := basicOf(fs.Elem())
			elems := e.sliceElems(sv)
			if eb != nil && eb.Kind() == types.Uint8 {
				bs := make([]*Term, len(elems))
				for i, x := range elems {
					bs[i] = x.(*Term)
				}
				return e.mkStr(bs)
			}
			if eb != nil && eb.Kind() == types.Int32 {
				allc := true
				for _, x := range elems {
					if !x.(*Term).Const {
						allc = false
					}
				}
				if allc {
					rs := make([]rune, len(elems))
					for i, x := range elems {
						rs[i] = rune(sext(x.(*Term).U, 32))
					}
					return StrV{s: string(rs)}
				}
				bs := make([]*Term, len(elems))
				for i, x := range elems {
					t := x.(*Term)
					if !t.Const || t.U >= 0x80 {
						if !e.Branch(tt.ULt(t, tt.BVConst(0x80, 32))) {
							panic(pathEnd{"cut", "non-ASCII rune in string(symbolic []rune)"})
						}
					}
					bs[i] = tt.Extract(t, 7, 0)
				}
				return e.mkStr(bs)
			}
		}
	}
	if _, ok := fu.(*types.Pointer); ok {
		if tb, ok := tu.(*types.Basic); ok && tb.Kind() == types.UnsafePointer {
			e.unsupported("typed pointer -> unsafe.Pointer conversion")
		}
		if _, ok := tu.(*types.Pointer); ok {
			if types.Identical(fu, tu) {
				return v
			}
			e.unsupported("pointer conversion between different types")
		}
	}
	e.unsupported(fmt.Sprintf("convert %s -> %s", from, to))
	return nil
}

// floatToInt models the amd64 behaviour: in-range values truncate toward zero; NaN and
// out-of-range values give the "integer indefinite" value (MinInt64) before narrowing.
func (e *Exec) floatToInt(f *Term, w int, signed bool) *Term {
	tt := e.tt
	if f.S.K == SFP32 {
		f = tt.FPToFP(f, FP64Sort)
	}
	if f.Const {
		x := f.F
		var r uint64
		if signed || w < 64 {
			if x != x || x >= 9223372036854775808.0 || x < -9223372036854775808.0 {
				r = 1 << 63
			} else {
				r = uint64(int64(x))
			}
		} else {
			if x != x || x >= 18446744073709551616.0 || x <= -1 {
				r = 1 << 63
				if x >= 9223372036854775808.0 && x < 18446744073709551616.0 {
					r = uint64(x)
				}
			} else {
				r = uint64(x)
			}
		}
		return tt.BVConst(r, w)
	}
	lo := tt.FPConst(-9223372036854775808.0, FP64Sort)
	hi := tt.FPConst(9223372036854775808.0, FP64Sort)
	indef := tt.BVConst(1<<63, 64)
	if signed || w < 64 {
		inr := tt.And(tt.FCmp("fp.leq", lo, f), tt.FCmp("fp.lt", f, hi))
		r := tt.Ite(inr, tt.FPToInt(f, true, 64), indef)
		return tt.Extract(r, w-1, 0)
	}
	// uint64
	hi2 := tt.FPConst(18446744073709551616.0, FP64Sort)
	inr := tt.And(tt.FCmp("fp.lt", tt.FPConst(-1, FP64Sort), f), tt.FCmp("fp.lt", f, hi2))
	return tt.Ite(inr, tt.FPToInt(f, false, 64), indef)
}

// ---------- builtins ----------

func (e *Exec) builtin(f *Frame, b *ssa.Builtin, args []Value, call *ssa.CallCommon) Value {
	tt := e.tt
	if call == nil && (b.Name() == "append" || b.Name() == "min" || b.Name() == "max") {
		e.unsupported("deferred/indirect builtin " + b.Name())
	}
	switch b.Name() {
	case "len":
		switch x := args[0].(type) {
		case StrV:
			return tt.BVConst(uint64(x.Len()), 64)
		case SliceV:
			return tt.BVConst(uint64(x.len), 64)
		case MapV:
			if x.obj == nil {
				return tt.BVConst(0, 64)
			}
			return tt.BVConst(uint64(x.obj.val.(*MapData).n), 64)
		case ChanV:
			if x.obj == nil {
				return tt.BVConst(0, 64)
			}
			return tt.BVConst(uint64(len(x.obj.val.(*ChanData).buf)), 64)
		case ArrayV:
			return tt.BVConst(uint64(len(x)), 64)
		case PtrV:
			arr := navigate(x.obj.val, x.path).(ArrayV)
			return tt.BVConst(uint64(len(arr)), 64)
		}
	case "cap":
		switch x := args[0].(type) {
		case SliceV:
			return tt.BVConst(uint64(x.cap), 64)
		case ChanV:
			if x.obj == nil {
				return tt.BVConst(0, 64)
			}
			return tt.BVConst(uint64(x.obj.val.(*ChanData).cap), 64)
		case ArrayV:
			return tt.BVConst(uint64(len(x)), 64)
		}
	case "append":
		s := args[0].(SliceV)
		var add []Value
		var et types.Type
		if st, ok := call.Args[0].Type().Underlying().(*types.Slice); ok {
			et = st.Elem()
		}
		switch y := args[1].(type) {
		case SliceV:
			add = e.sliceElems(y)
		case StrV:
			for _, bt := range e.strBytes(y) {
				add = append(add, bt)
			}
		default:
			e.unsupported(fmt.Sprintf("append of %T", y))
		}
		if len(add) == 0 {
			return s
		}
		return e.appendVals(s, add, et)
	case "copy":
		dst := args[0].(SliceV)
		var src []Value
		switch y := args[1].(type) {
		case SliceV:
			src = append([]Value(nil), e.sliceElems(y)...)
		case StrV:
			for _, bt := range e.strBytes(y) {
				src = append(src, bt)
			}
		}
		n := dst.len
		if len(src) < n {
			n = len(src)
		}
		if n > 0 {
			e.touch(dst.arr)
			arr := dst.arr.val.(ArrayV)
			copy(arr[dst.off:dst.off+n], src[:n])
		}
		return tt.BVConst(uint64(n), 64)
	case "delete":
		e.mapDelete(args[0].(MapV), args[1])
		return nil
	case "close":
		ch := args[0].(ChanV)
		if ch.obj == nil {
			e.runtimePanic("close of nil channel")
		}
		cd := ch.obj.val.(*ChanData)
		if cd.closed {
			e.runtimePanic("close of closed channel")
		}
		e.touch(ch.obj)
		cd = ch.obj.val.(*ChanData)
		cd.closed = true
		return nil
	case "panic":
		iv, _ := args[0].(IfaceV)
		panic(&PanicV{val: iv, msg: e.panicMsg(iv)})
	case "recover":
		g := e.cur
		if f != nil && f.isDefer && len(g.stack) >= 2 {
			c := g.stack[len(g.stack)-2]
			if c.deferMode == 2 && c.panicVal != nil && !c.panicVal.recovered {
				c.panicVal.recovered = true
				return e.panicValueForRecover(c.panicVal)
			}
		}
		return IfaceV{}
	case "print", "println":
		return nil
	case "min", "max":
		r := args[0]
		for _, a := range args[1:] {
			t := call.Args[0].Type()
			var less *Term
			if b.Name() == "min" {
				less = e.binop(token.LSS, a, r, t, t).(*Term)
			} else {
				less = e.binop(token.GTR, a, r, t, t).(*Term)
			}
			switch rv := r.(type) {
			case *Term:
				r = tt.Ite(less, a.(*Term), rv)
			default:
				if e.Branch(less) {
					r = a
				}
			}
		}
		return r
	case "clear":
		switch x := args[0].(type) {
		case MapV:
			if x.obj != nil {
				e.touch(x.obj)
				md := x.obj.val.(*MapData)
				for i := range md.dead {
					md.dead[i] = true
				}
				md.n = 0
				md.index = map[string]int{}
			}
			return nil
		}
	case "ssa:wrapnilchk":
		p := args[0].(PtrV)
		if p.obj == nil {
			e.runtimePanic("value method called using nil pointer")
		}
		return p
	}
	e.unsupported("builtin " + b.Name())
	return nil
}

// runtimeErrorType is resolved lazily: a named type that implements error, used for recovered runtime panics.
func (e *Exec) panicValueForRecover(p *PanicV) Value {
	if p.runtime {
		// modelled as errors.errorString-like: an error whose Error() returns msg
		return e.mkError(p.msg)
	}
	return p.val
}

func (e *Exec) appendVals(s SliceV, add []Value, et types.Type) SliceV {
	need := s.len + len(add)
	if s.arr != nil && need <= s.cap {
		e.touch(s.arr)
		arr := s.arr.val.(ArrayV)
		copy(arr[s.off+s.len:], add)
		return SliceV{arr: s.arr, off: s.off, len: need, cap: s.cap}
	}
	nc := 2 * s.cap
	if nc < need {
		nc = need
	}
	arr := make(ArrayV, nc)
	copy(arr, e.sliceElems(s))
	copy(arr[s.len:], add)
	if nc > need {
		if et == nil && s.arr != nil {
			et = s.arr.typ
		}
		var z Value
		if et != nil {
			z = e.zero(et)
		}
		for i := need; i < nc; i++ {
			arr[i] = z
		}
	}
	o := e.newObj(arr, et)
	o.tag = "slice"
	return SliceV{arr: o, off: 0, len: need, cap: nc}
}

// ---------- channels ----------

func (e *Exec) chanSend(ch ChanV, v Value) {
	if ch.obj == nil {
		e.block("send on nil chan", func() bool { return false })
	}
	cd := ch.obj.val.(*ChanData)
	if cd.closed {
		e.runtimePanic("send on closed channel")
	}
	if cd.cap == 0 {
		e.unsupported("send on unbuffered channel")
	}
	if len(cd.buf) >= cd.cap {
		e.block("chan send", func() bool { return cd.closed || len(cd.buf) < cd.cap })
	}
	e.touch(ch.obj)
	cd = ch.obj.val.(*ChanData)
	cd.buf = append(cd.buf, v)
}

func (e *Exec) chanRecv(ch ChanV) (Value, bool) {
	if ch.obj == nil {
		e.block("recv on nil chan", func() bool { return false })
	}
	cd := ch.obj.val.(*ChanData)
	if len(cd.buf) > 0 {
		e.touch(ch.obj)
		cd = ch.obj.val.(*ChanData)
		v := cd.buf[0]
		cd.buf = append([]Value(nil), cd.buf[1:]...)
		return v, true
	}
	if cd.closed {
		return e.zero(cd.etype), false
	}
	e.block("chan recv", func() bool { return cd.closed || len(cd.buf) > 0 })
	return nil, false
}

func (e *Exec) selectOp(f *Frame, x *ssa.Select) Value {
	tt := e.tt
	readyIdx := func() []int {
		var out []int
		for i, st := range x.States {
			ch := e.get(f, st.Chan).(ChanV)
			if ch.obj == nil {
				continue
			}
			cd := ch.obj.val.(*ChanData)
			if st.Dir == types.SendOnly {
				if cd.closed || (cd.cap > 0 && len(cd.buf) < cd.cap) {
					out = append(out, i)
				}
			} else {
				if cd.closed || len(cd.buf) > 0 {
					out = append(out, i)
				}
			}
		}
		return out
	}
	rs := readyIdx()
	// result tuple: index, recvOk, then one value per receive state
	mk := func(idx int, ok bool, recvd map[int]Value) Value {
		out := TupleV{tt.BVConst(uint64(int64(idx)), 64), tt.Bool(ok)}
		for i, st := range x.States {
			if st.Dir == types.RecvOnly {
				if v, has := recvd[i]; has {
					out = append(out, v)
				} else {
					out = append(out, e.zero(st.Chan.Type().Underlying().(*types.Chan).Elem()))
				}
			}
		}
		return out
	}
	if len(rs) == 0 {
		if !x.Blocking {
			return mk(-1, false, nil)
		}
		e.block("select", func() bool { return len(readyIdx()) > 0 })
	}
	pick := rs[0]
	if len(rs) > 1 {
		pick = rs[e.Choose(len(rs))]
	}
	st := x.States[pick]
	ch := e.get(f, st.Chan).(ChanV)
	if st.Dir == types.SendOnly {
		e.chanSend(ch, e.get(f, st.Send))
		return mk(pick, false, nil)
	}
	v, ok := e.chanRecv(ch)
	return mk(pick, ok, map[int]Value{pick: v})
}

var _ = math.Inf
