package main

import (
	"encoding/json"
	"fmt"
	"go/types"
	"math"
	"strconv"
	"strings"

	"golang.org/x/tools/go/ssa"
)

type intrinsicFn func(e *Exec, fn *ssa.Function, args []Value, caller *Frame) Value

var intrinsics = map[string]intrinsicFn{}

const zz = "github.com/rulego/streamsql/internal/zzverif."

type lockState struct {
	writer  bool
	readers int
	owner   int
}

func ptrKey(v Value) string {
	p := v.(PtrV)
	if p.obj == nil {
		return "nil"
	}
	var sb strings.Builder
	fmt.Fprintf(&sb, "%d", p.obj.id)
	for _, i := range p.path {
		fmt.Fprintf(&sb, ".%d", i)
	}
	return sb.String()
}

func (e *Exec) tryIntrinsic(fn *ssa.Function, args []Value, caller *Frame) (Value, bool) {
	in, ok := e.P.intrinsicFor(fn)
	if !ok {
		if fn.Blocks == nil {
			e.unsupported("external function without model: " + fn.String())
		}
		return nil, false
	}
	if in == nil {
		return nil, false
	}
	return in(e, fn, args, caller), true
}

var intrinsicCache = struct {
	m map[*ssa.Function]intrinsicFn
}{}

func (p *Program) intrinsicFor(fn *ssa.Function) (intrinsicFn, bool) {
	if v, ok := p.intrCache.Load(fn); ok {
		if v == nil {
			return nil, fn.Blocks != nil
		}
		f := v.(intrinsicFn)
		return f, true
	}
	name := fn.String()
	if fn.Synthetic == "package initializer" {
		f := intrinsicFn(func(e *Exec, fn *ssa.Function, args []Value, caller *Frame) Value {
			e.ensureInit(fn.Pkg)
			return nil
		})
		p.intrCache.Store(fn, f)
		return f, true
	}
	if in, ok := intrinsics[name]; ok {
		p.intrCache.Store(fn, in)
		return in, true
	}
	// generic instantiations: strip type arguments
	if i := strings.Index(name, "["); i > 0 {
		if in, ok := intrinsics[name[:i]]; ok {
			p.intrCache.Store(fn, in)
			return in, true
		}
	}
	// expr-lang option constructors: opaque values
	if strings.HasPrefix(name, "github.com/expr-lang/expr.") && fn.Signature.Results().Len() == 1 {
		if isNamed(fn.Signature.Results().At(0).Type(), "github.com/expr-lang/expr", "Option") {
			f := intrinsicFn(func(e *Exec, fn *ssa.Function, args []Value, caller *Frame) Value {
				return NativeV{"expr.Option"}
			})
			p.intrCache.Store(fn, f)
			return f, true
		}
	}
	// package-level no-op prefixes (logging)
	for _, pre := range noopPrefixes {
		if strings.HasPrefix(name, pre) {
			f := intrinsicFn(func(e *Exec, fn *ssa.Function, args []Value, caller *Frame) Value {
				return e.zeroResults(fn)
			})
			p.intrCache.Store(fn, f)
			return f, true
		}
	}
	p.intrCache.Store(fn, nil)
	return nil, fn.Blocks != nil
}

var noopPrefixes = []string{
	"log.Print", "log.Fatal", "(*log.Logger).", "log.New",
	"github.com/rulego/streamsql/logger.Debug", "github.com/rulego/streamsql/logger.Info",
	"github.com/rulego/streamsql/logger.Warn", "github.com/rulego/streamsql/logger.Error",
	"(*github.com/rulego/streamsql/logger.defaultLogger).Debug", "(*github.com/rulego/streamsql/logger.defaultLogger).Info",
	"(*github.com/rulego/streamsql/logger.defaultLogger).Warn", "(*github.com/rulego/streamsql/logger.defaultLogger).Error",
	"(*github.com/rulego/streamsql/logger.defaultLogger).log",
}

func (e *Exec) zeroResults(fn *ssa.Function) Value {
	rs := fn.Signature.Results()
	switch rs.Len() {
	case 0:
		return nil
	case 1:
		return e.zero(rs.At(0).Type())
	}
	return e.zero(rs)
}

func (e *Exec) freshVar(name string, s Sort) *Term {
	t := e.tt.Var(name, s)
	e.pathAll = append(e.pathAll, t)
	return t
}

func (e *Exec) nondet(name string, kind string, s Sort) *Term {
	n := e.nondetN[name]
	e.nondetN[name] = n + 1
	if e.fixed != nil {
		l := e.fixed.Values[name]
		var t *Term
		if n < len(l) {
			switch kind {
			case "bool":
				t = e.tt.Bool(l[n] == "1")
			case "f64":
				u, _ := strconv.ParseUint(l[n], 16, 64)
				t = e.tt.FPConst(math.Float64frombits(u), FP64Sort)
			default:
				u, _ := strconv.ParseUint(l[n], 10, 64)
				t = e.tt.BVConst(u, s.W)
			}
		} else {
			switch kind {
			case "bool":
				t = e.tt.Bool(false)
			case "f64":
				t = e.tt.FPConst(0, FP64Sort)
			default:
				t = e.tt.BVConst(0, s.W)
			}
		}
		e.pathVars = append(e.pathVars, nondetRec{name: name, kind: kind, t: t})
		return t
	}
	t := e.freshVar(fmt.Sprintf("%s!%d", name, n), s)
	e.pathVars = append(e.pathVars, nondetRec{name: name, kind: kind, t: t})
	return t
}

func argStr(e *Exec, v Value, what string) string {
	s, ok := v.(StrV)
	if ok && !s.IsConcrete() && s.opq == nil && symByteCount(s) <= 3 {
		// a few symbolic bytes: enumerate their feasible values (one path each)
		s = e.concretizeStr(s)
	}
	if !ok || !s.IsConcrete() {
		e.unsupported(what + ": string argument must be concrete")
	}
	return s.Concrete()
}

func argInt(e *Exec, v Value, what string) int {
	t, ok := v.(*Term)
	if !ok || !t.Const {
		e.unsupported(what + ": int argument must be concrete")
	}
	return int(sext(t.U, t.S.W))
}

func (e *Exec) mkError(msg string) Value {
	pkg := e.P.prog.ImportedPackage("errors")
	if pkg == nil {
		e.unsupported("errors package not loaded")
	}
	et := pkg.Type("errorString").Type()
	o := e.newObj(StructV{StrV{s: msg}}, et)
	return IfaceV{t: types.NewPointer(et), v: PtrV{obj: o}}
}

func (e *Exec) mkErrorV(msg StrV) Value {
	pkg := e.P.prog.ImportedPackage("errors")
	et := pkg.Type("errorString").Type()
	o := e.newObj(StructV{msg}, et)
	return IfaceV{t: types.NewPointer(et), v: PtrV{obj: o}}
}

func init() {
	// ---- zzverif primitives ----
	intrinsics[zz+"NondetU64"] = func(e *Exec, fn *ssa.Function, a []Value, c *Frame) Value {
		name := argStr(e, a[0], "NondetU64")
		bits := argInt(e, a[1], "NondetU64")
		t := e.nondet(name, fmt.Sprintf("u%d", bits), BV(bits))
		return e.tt.ZExt(t, 64)
	}
	intrinsics[zz+"NondetBool"] = func(e *Exec, fn *ssa.Function, a []Value, c *Frame) Value {
		return e.nondet(argStr(e, a[0], "NondetBool"), "bool", BoolSort)
	}
	intrinsics[zz+"NondetF64"] = func(e *Exec, fn *ssa.Function, a []Value, c *Frame) Value {
		return e.nondet(argStr(e, a[0], "NondetF64"), "f64", FP64Sort)
	}
	intrinsics[zz+"Choose"] = func(e *Exec, fn *ssa.Function, a []Value, c *Frame) Value {
		n := argInt(e, a[1], "Choose")
		if n <= 0 {
			panic(pathEnd{"infeasible", "Choose(0)"})
		}
		var k int
		if e.fixed != nil {
			if len(e.choices) < len(e.fixed.Choices) {
				k = e.fixed.Choices[len(e.choices)]
			}
		} else {
			k = e.Choose(n)
		}
		e.choices = append(e.choices, k)
		return e.tt.BVConst(uint64(k), 64)
	}
	intrinsics[zz+"Assume"] = func(e *Exec, fn *ssa.Function, a []Value, c *Frame) Value {
		e.Assume(a[0].(*Term))
		return nil
	}
	intrinsics[zz+"Assert"] = func(e *Exec, fn *ssa.Function, a []Value, c *Frame) Value {
		e.Assert(a[0].(*Term), argStr(e, a[1], "Assert"), "", nil)
		return nil
	}
	intrinsics[zz+"AssertKF"] = func(e *Exec, fn *ssa.Function, a []Value, c *Frame) Value {
		e.Assert(a[0].(*Term), argStr(e, a[1], "AssertKF"), argStr(e, a[2], "AssertKF"), a[3].(*Term))
		return nil
	}
	intrinsics[zz+"KnownOpen"] = func(e *Exec, fn *ssa.Function, a []Value, c *Frame) Value {
		return e.tt.Bool(e.kf[argStr(e, a[0], "KnownOpen")])
	}
	intrinsics[zz+"Cover"] = func(e *Exec, fn *ssa.Function, a []Value, c *Frame) Value {
		e.covers[argStr(e, a[0], "Cover")] = true
		return nil
	}
	obs := func(e *Exec, fn *ssa.Function, a []Value, c *Frame) Value {
		e.observes = append(e.observes, observeRec{argStr(e, a[0], "Observe"), a[1]})
		return nil
	}
	intrinsics[zz+"Observe"] = obs
	intrinsics[zz+"ObserveB"] = obs
	intrinsics[zz+"ObserveS"] = obs
	intrinsics[zz+"Param"] = func(e *Exec, fn *ssa.Function, a []Value, c *Frame) Value {
		name := argStr(e, a[0], "Param")
		if v, ok := e.params[name]; ok {
			return e.tt.BVConst(uint64(v), 64)
		}
		return a[1]
	}
	intrinsics[zz+"Symbolic"] = func(e *Exec, fn *ssa.Function, a []Value, c *Frame) Value {
		return e.tt.Bool(true)
	}
	intrinsics[zz+"And"] = func(e *Exec, fn *ssa.Function, a []Value, c *Frame) Value {
		return e.tt.And(a[0].(*Term), a[1].(*Term))
	}
	intrinsics[zz+"Or"] = func(e *Exec, fn *ssa.Function, a []Value, c *Frame) Value {
		return e.tt.Or(a[0].(*Term), a[1].(*Term))
	}
	intrinsics[zz+"Not"] = func(e *Exec, fn *ssa.Function, a []Value, c *Frame) Value {
		return e.tt.Not(a[0].(*Term))
	}
	intrinsics[zz+"Implies"] = func(e *Exec, fn *ssa.Function, a []Value, c *Frame) Value {
		return e.tt.Implies(a[0].(*Term), a[1].(*Term))
	}
	intrinsics[zz+"IteInt"] = func(e *Exec, fn *ssa.Function, a []Value, c *Frame) Value {
		return e.tt.Ite(a[0].(*Term), a[1].(*Term), a[2].(*Term))
	}
	intrinsics[zz+"IteBool"] = intrinsics[zz+"IteInt"]
	intrinsics[zz+"IteF"] = intrinsics[zz+"IteInt"]
	intrinsics[zz+"B2I"] = func(e *Exec, fn *ssa.Function, a []Value, c *Frame) Value {
		return e.tt.Ite(a[0].(*Term), e.tt.BVConst(1, 64), e.tt.BVConst(0, 64))
	}
	intrinsics[zz+"Yield"] = func(e *Exec, fn *ssa.Function, a []Value, c *Frame) Value {
		if c == nil || c.selState == 0 {
			if c != nil {
				c.selState = 1
			}
			// give up the processor: the scheduler picks among all runnable goroutines (including us)
			e.block("yield", func() bool { return true })
		}
		c.selState = 0
		return nil
	}
	intrinsics[zz+"Quiesce"] = func(e *Exec, fn *ssa.Function, a []Value, c *Frame) Value {
		me := e.cur
		others := func() bool {
			for _, g := range e.gs {
				if g == me || g.done {
					continue
				}
				if g.waiting == nil || g.waiting() {
					return true
				}
			}
			return false
		}
		if others() {
			e.block("quiesce", func() bool { return !others() })
		}
		return nil
	}

	// ---- expr-lang: not encodable ----
	// NewExprCondition itself is interpreted from its real body; only the expr-lang calls inside it are
	// stubbed: options are opaque, Compile yields a fresh opaque program (any evaluation that reaches
	// expr.Run is cut and counted).
	intrinsics["github.com/expr-lang/expr.Compile"] = func(e *Exec, fn *ssa.Function, a []Value, c *Frame) Value {
		// a fresh, opaque program object per call (as the real compiler returns): identity of programs
		// is observable (program caches), their content is not (Run is cut)
		pt := fn.Signature.Results().At(0).Type().(*types.Pointer)
		o := e.newObj(e.zero(pt.Elem()), pt.Elem())
		return TupleV{PtrV{obj: o}, IfaceV{}}
	}
	cutExpr := func(e *Exec, fn *ssa.Function, a []Value, c *Frame) Value {
		if e.params["exprlang_error"] == 1 && fn.Signature.Results().Len() == 2 {
			// job option: the VM reports an evaluation error (what it does e.g. for a nil operand), so
			// that the repo's own fallback evaluators run and can be checked
			return TupleV{IfaceV{}, e.mkError("expr-lang evaluation error (stub)")}
		}
		panic(pathEnd{"cut", "expr-lang " + fn.Name() + " (general expression engine is outside the encodable code)"})
	}
	intrinsics["github.com/expr-lang/expr.Run"] = cutExpr
	intrinsics["github.com/expr-lang/expr.Eval"] = cutExpr
	intrinsics["(*github.com/expr-lang/expr/vm.VM).Run"] = cutExpr

	// ---- sync ----
	lock := func(write bool) intrinsicFn {
		return func(e *Exec, fn *ssa.Function, a []Value, c *Frame) Value {
			k := ptrKey(a[0])
			ls := e.locks[k]
			if ls == nil {
				ls = &lockState{}
				e.locks[k] = ls
			}
			// jobs run with param preempt_locks=1: every lock acquisition is a scheduling point
			// (critical-section granularity interleavings of the goroutines of the harness)
			if e.params["preempt_locks"] == 1 && c != nil && len(e.gs) > 1 {
				if c.selState == 0 {
					c.selState = 1
					e.block("yield", func() bool { return true })
				}
				c.selState = 0
			}
			if write {
				if ls.writer || ls.readers > 0 {
					e.block("mutex "+k, func() bool { return !ls.writer && ls.readers == 0 })
				}
				ls.writer = true
				ls.owner = e.cur.id
			} else {
				if ls.writer {
					e.block("rwmutex(r) "+k, func() bool { return !ls.writer })
				}
				ls.readers++
			}
			return nil
		}
	}
	unlock := func(write bool) intrinsicFn {
		return func(e *Exec, fn *ssa.Function, a []Value, c *Frame) Value {
			k := ptrKey(a[0])
			ls := e.locks[k]
			if write {
				if ls == nil || !ls.writer {
					panic(pathEnd{"fatal", "sync: unlock of unlocked mutex" + e.where()})
				}
				ls.writer = false
			} else {
				if ls == nil || ls.readers == 0 {
					panic(pathEnd{"fatal", "sync: RUnlock of unlocked RWMutex" + e.where()})
				}
				ls.readers--
			}
			return nil
		}
	}
	intrinsics["(*sync.Mutex).Lock"] = lock(true)
	intrinsics["(*sync.Mutex).Unlock"] = unlock(true)
	intrinsics["(*sync.RWMutex).Lock"] = lock(true)
	intrinsics["(*sync.RWMutex).Unlock"] = unlock(true)
	intrinsics["(*sync.RWMutex).RLock"] = lock(false)
	intrinsics["(*sync.RWMutex).RUnlock"] = unlock(false)
	intrinsics["(*sync.Mutex).TryLock"] = func(e *Exec, fn *ssa.Function, a []Value, c *Frame) Value {
		k := ptrKey(a[0])
		ls := e.locks[k]
		if ls == nil {
			ls = &lockState{}
			e.locks[k] = ls
		}
		if ls.writer || ls.readers > 0 {
			return e.tt.Bool(false)
		}
		ls.writer = true
		return e.tt.Bool(true)
	}
	intrinsics["(*sync.Once).Do"] = func(e *Exec, fn *ssa.Function, a []Value, c *Frame) Value {
		k := ptrKey(a[0])
		if e.onces[k] {
			return nil
		}
		e.onces[k] = true
		e.callFunction(a[1], nil)
		return nil
	}
	intrinsics["(*sync.WaitGroup).Add"] = func(e *Exec, fn *ssa.Function, a []Value, c *Frame) Value {
		e.wgs[ptrKey(a[0])] += argInt(e, a[1], "WaitGroup.Add")
		return nil
	}
	intrinsics["(*sync.WaitGroup).Done"] = func(e *Exec, fn *ssa.Function, a []Value, c *Frame) Value {
		e.wgs[ptrKey(a[0])]--
		return nil
	}
	intrinsics["(*sync.WaitGroup).Wait"] = func(e *Exec, fn *ssa.Function, a []Value, c *Frame) Value {
		k := ptrKey(a[0])
		if e.wgs[k] > 0 {
			e.block("waitgroup", func() bool { return e.wgs[k] <= 0 })
		}
		return nil
	}

	// ---- sync.Map: an ordinary map with any-typed keys (sequential; operations are atomic steps) ----
	smap := func(e *Exec, a []Value) MapV {
		k := ptrKey(a[0])
		m, ok := e.syncMaps[k]
		if !ok {
			anyT := types.NewInterfaceType(nil, nil)
			m = e.newMap(anyT, anyT)
			e.syncMaps[k] = m
		}
		return m
	}
	intrinsics["(*sync.Map).Load"] = func(e *Exec, fn *ssa.Function, a []Value, c *Frame) Value {
		v, ok := e.mapGet(smap(e, a), a[1])
		if !ok {
			return TupleV{IfaceV{}, e.tt.Bool(false)}
		}
		return TupleV{v, e.tt.Bool(true)}
	}
	intrinsics["(*sync.Map).Store"] = func(e *Exec, fn *ssa.Function, a []Value, c *Frame) Value {
		e.mapSet(smap(e, a), a[1], a[2])
		return nil
	}
	intrinsics["(*sync.Map).Delete"] = func(e *Exec, fn *ssa.Function, a []Value, c *Frame) Value {
		e.mapDelete(smap(e, a), a[1])
		return nil
	}
	intrinsics["(*sync.Map).LoadOrStore"] = func(e *Exec, fn *ssa.Function, a []Value, c *Frame) Value {
		m := smap(e, a)
		if v, ok := e.mapGet(m, a[1]); ok {
			return TupleV{v, e.tt.Bool(true)}
		}
		e.mapSet(m, a[1], a[2])
		return TupleV{a[2], e.tt.Bool(false)}
	}
	intrinsics["(*sync.Map).LoadAndDelete"] = func(e *Exec, fn *ssa.Function, a []Value, c *Frame) Value {
		m := smap(e, a)
		if v, ok := e.mapGet(m, a[1]); ok {
			e.mapDelete(m, a[1])
			return TupleV{v, e.tt.Bool(true)}
		}
		return TupleV{IfaceV{}, e.tt.Bool(false)}
	}
	intrinsics["(*sync.Map).Range"] = func(e *Exec, fn *ssa.Function, a []Value, c *Frame) Value {
		md := smap(e, a).obj.val.(*MapData)
		n := len(md.keys)
		for i := 0; i < n; i++ {
			if md.dead[i] {
				continue
			}
			r := e.callFunction(a[1], []Value{md.keys[i], md.vals[i]})
			if t, ok := r.(*Term); ok && t.IsFalse() {
				break
			} else if ok && !t.Const {
				if !e.Branch(t) {
					break
				}
			}
		}
		return nil
	}

	// ---- encoding/json.Marshal of a concrete value: native call-out (reflection-heavy encoder is not
	// interpreted); symbolic arguments are unsupported ----
	intrinsics["encoding/json.Marshal"] = func(e *Exec, fn *ssa.Function, a []Value, c *Frame) Value {
		n, ok := e.toNative(a[0], nil)
		if !ok {
			e.unsupported("encoding/json.Marshal of a symbolic or non-plain value")
		}
		b, err := json.Marshal(n)
		if err != nil {
			e.unsupported("encoding/json.Marshal native error: " + err.Error())
		}
		vals := make([]Value, len(b))
		for i, x := range b {
			vals[i] = e.tt.BVConst(uint64(x), 8)
		}
		return TupleV{e.sliceFrom(types.Typ[types.Uint8], vals), IfaceV{}}
	}

	// ---- sync.Pool: a LIFO free list per pool (one valid behaviour of the real pool: single P, no GC) ----
	intrinsics["(*sync.Pool).Get"] = func(e *Exec, fn *ssa.Function, a []Value, c *Frame) Value {
		k := ptrKey(a[0])
		if st := e.pools[k]; len(st) > 0 {
			v := st[len(st)-1]
			e.pools[k] = st[:len(st)-1]
			return v
		}
		sv, ok := e.load(a[0].(PtrV)).(StructV)
		if !ok {
			e.unsupported("sync.Pool value")
		}
		st := fn.Signature.Recv().Type().(*types.Pointer).Elem().Underlying().(*types.Struct)
		for i := 0; i < st.NumFields(); i++ {
			if st.Field(i).Name() == "New" {
				if _, isNil := sv[i].(NilFunc); isNil || sv[i] == nil {
					return IfaceV{}
				}
				return e.callFunction(sv[i], nil)
			}
		}
		return IfaceV{}
	}
	intrinsics["(*sync.Pool).Put"] = func(e *Exec, fn *ssa.Function, a []Value, c *Frame) Value {
		k := ptrKey(a[0])
		e.pools[k] = append(e.pools[k], a[1])
		return nil
	}

	// ---- sync/atomic (sequential) ----
	for _, ty := range []string{"Int32", "Int64", "Uint32", "Uint64", "Uintptr"} {
		intrinsics["sync/atomic.Load"+ty] = func(e *Exec, fn *ssa.Function, a []Value, c *Frame) Value {
			return e.load(a[0].(PtrV))
		}
		intrinsics["sync/atomic.Store"+ty] = func(e *Exec, fn *ssa.Function, a []Value, c *Frame) Value {
			e.store(a[0].(PtrV), a[1])
			return nil
		}
		intrinsics["sync/atomic.Add"+ty] = func(e *Exec, fn *ssa.Function, a []Value, c *Frame) Value {
			p := a[0].(PtrV)
			nv := e.tt.Add(e.load(p).(*Term), a[1].(*Term))
			e.store(p, nv)
			return nv
		}
		intrinsics["sync/atomic.Swap"+ty] = func(e *Exec, fn *ssa.Function, a []Value, c *Frame) Value {
			p := a[0].(PtrV)
			old := e.load(p)
			e.store(p, a[1])
			return old
		}
		intrinsics["sync/atomic.CompareAndSwap"+ty] = func(e *Exec, fn *ssa.Function, a []Value, c *Frame) Value {
			p := a[0].(PtrV)
			old := e.load(p).(*Term)
			if e.Branch(e.tt.Eq(old, a[1].(*Term))) {
				e.store(p, a[2])
				return e.tt.Bool(true)
			}
			return e.tt.Bool(false)
		}
	}
	// atomic.Value / atomic.Pointer / atomic.Bool are structs whose methods have Go bodies built on
	// unsafe; model atomic.Value directly on its first field.
	intrinsics["(*sync/atomic.Value).Load"] = func(e *Exec, fn *ssa.Function, a []Value, c *Frame) Value {
		return e.load(a[0].(PtrV).extend(0))
	}
	intrinsics["(*sync/atomic.Value).Store"] = func(e *Exec, fn *ssa.Function, a []Value, c *Frame) Value {
		e.store(a[0].(PtrV).extend(0), a[1])
		return nil
	}
	intrinsics["sync/atomic.LoadPointer"] = func(e *Exec, fn *ssa.Function, a []Value, c *Frame) Value {
		return e.load(a[0].(PtrV))
	}
	intrinsics["sync/atomic.StorePointer"] = func(e *Exec, fn *ssa.Function, a []Value, c *Frame) Value {
		e.store(a[0].(PtrV), a[1])
		return nil
	}

	// ---- errors / fmt (minimal) ----
	intrinsics["fmt.Errorf"] = func(e *Exec, fn *ssa.Function, a []Value, c *Frame) Value {
		return e.mkErrorV(e.sprintf(a[0].(StrV), a[1].(SliceV)))
	}
	intrinsics["fmt.Sprintf"] = func(e *Exec, fn *ssa.Function, a []Value, c *Frame) Value {
		return e.sprintf(a[0].(StrV), a[1].(SliceV))
	}
	intrinsics["fmt.Sprint"] = func(e *Exec, fn *ssa.Function, a []Value, c *Frame) Value {
		return e.sprint(a[0].(SliceV))
	}
	for _, n := range []string{"fmt.Printf", "fmt.Println", "fmt.Print", "fmt.Fprintf", "fmt.Fprintln"} {
		intrinsics[n] = func(e *Exec, fn *ssa.Function, a []Value, c *Frame) Value { return e.zeroResults(fn) }
	}
}
