#!/usr/bin/env python3
"""Regenerates MANIFEST.json from checks/*.json (claimed properties) and not_applicable.json."""
import json, glob, os, sys
root = os.path.dirname(os.path.dirname(os.path.abspath(__file__)))
checks = []
claimed = set()
for f in sorted(glob.glob(os.path.join(root, 'checks', 'C*.json'))):
    s = json.load(open(f))
    if not s.get('registered', True):
        continue
    pid = s['property']
    claimed.add(pid)
    c = {
        'property_id': pid,
        'quick_cmd': './check %s quick' % pid,
        'evidence_file': '/verif/evidence/%s.json' % pid,
        'engine': 'gosym',
        'level_claimed': {'category': s['level'], 'text': s['level_text'], 'design_ref': s.get('design_ref', 'DESIGN.md §5 ' + pid)},
        'level_note': s['level_note'],
        'technique': s.get('technique', 'bounded symbolic execution of the real Go SSA (gosym) + z3; counterexamples replayed natively'),
        'replay_cmd_template': 'VERIF_REPLAY_ONE={path} ./check %s quick' % pid,
    }
    if 'thorough' in s.get('jobs', {}):
        c['thorough_cmd'] = './check %s thorough' % pid
    checks.append(c)
na = json.load(open(os.path.join(root, 'not_applicable.json')))
na = [x for x in na if x['property_id'] not in claimed]
props = [json.loads(l)['id'] for l in open(os.path.join(root, 'properties.jsonl'))]
for p in props:
    if p not in claimed and p not in [x['property_id'] for x in na]:
        print('property %s neither claimed nor listed not_applicable' % p, file=sys.stderr)
        sys.exit(1)
m = {
    'version': 1,
    'setup_cmd': 'cd /verif/engine && GOFLAGS=-mod=mod GOPROXY=off GOSUMDB=off GOTOOLCHAIN=local go build -o /verif/bin/gosym .',
    'hooks': {
        'guard': 'verif',
        'enable': 'no source hooks: harness files (//go:build verif) and the zzverif package are injected virtually with go/packages Overlay and `go test -tags verif -overlay`; nothing is written under /repo',
        'baseline_off_cmd': 'cd /repo && GOFLAGS=-mod=mod GOPROXY=off go test -vet=off -count=1 -timeout 25m ./...',
        'source_commits': [],
        'add_only': True,
    },
    'engines': [{
        'name': 'gosym', 'path': '/verif/engine',
        'serves_properties': sorted(claimed),
        'kind_free_text': 'bounded symbolic interpreter for go/ssa (x/tools v0.29.0) written for this task; path conditions decided by z3 5.1.0 (incremental), z3 4.8.12 and cvc5 1.0 (one-shot) over bit-vectors / IEEE floats; every counterexample and a sample of passing paths are replayed against the natively compiled code',
    }],
    'checks': checks,
    'not_applicable': na,
    'notes': 'Exit codes of ./check: 0 = every obligation unsat within the stated bounds and every sampled path agrees with the native run; 1 = replay-confirmed VIOLATION; 2 = INCONCLUSIVE (unsupported construct, solver unknown, replay mismatch, vacuous harness) - never reported as success. Fixed defects and open findings: known_findings.json.',
}
json.dump(m, open(os.path.join(root, 'MANIFEST.json'), 'w'), indent=1)
print('claimed:', sorted(claimed), 'not_applicable:', [x['property_id'] for x in na])
