#!/bin/sh
# usage: PAT=<idx> EVS="A AB C" [SKIPNEXT=1] tools/cepdbg.sh   -- drives the real cep engine natively
export GOFLAGS=-mod=mod GOPROXY=off GOSUMDB=off GOTOOLCHAIN=local
cp /verif/harness/cep/C15_nfa.go /repo/cep/zz_verif_C15_nfa.go
mkdir -p /repo/internal/zzverif && cp /verif/harness/zzverif/verif.go /repo/internal/zzverif/verif.go
cp /verif/tools/cepdbg_test.go.txt /repo/cep/zz_cepdbg_test.go
(cd /repo && go test -tags verif -vet=off -count=1 -v -run TestCepDbg ./cep/ 2>&1 | grep -v "^=== RUN\|^PASS\|^ok\|^---")
rm -rf /repo/cep/zz_verif_C15_nfa.go /repo/cep/zz_cepdbg_test.go /repo/internal/zzverif
