#!/bin/sh
# runs the property's check (quick, then thorough if quick misses) against every seeded change; writes seeded/RESULTS.txt
cd /verif
: > seeded/RESULTS.txt
for d in seeded/C*-*; do
  id=$(basename $d); p=${id%-*}
  [ -n "$1" ] && [ "$1" != "$p" ] && [ "$1" != "$id" ] && continue
  r=$(tools/seedtest.sh $p $PWD/$d/patch.diff quick 2>&1 | grep -E "^exit=" )
  tier=quick
  if [ "$r" != "exit=1" ] && [ -z "$QUICK_ONLY" ]; then
     r2=$(tools/seedtest.sh $p $PWD/$d/patch.diff thorough 2>&1 | grep -E "^exit=")
     if [ "$r2" = "exit=1" ]; then r=$r2; tier=thorough; fi
  fi
  echo "$id $tier $r" | tee -a seeded/RESULTS.txt
done
