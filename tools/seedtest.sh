#!/bin/sh
# usage: tools/seedtest.sh <property> <patch.diff> [tier]
# applies a seeded change to /repo, runs the property's check, and always restores /repo.
P="$1"; PATCH="$2"; TIER="${3:-quick}"
cd /repo || exit 3
if [ -n "$(git status --porcelain)" ]; then echo "repo not clean"; exit 3; fi
git apply "$PATCH" || { echo "patch does not apply"; exit 3; }
go build ./... >/dev/null 2>&1 || { echo "patched tree does not build"; git checkout -- . ; git clean -fdq; exit 3; }
cd /verif
# evidence describes runs against /repo itself: keep the file of the unchanged tree
cp evidence/$P.json /tmp/evidence_$P.bak 2>/dev/null
OUT=$(timeout ${SEED_TIMEOUT:-1800} ./check "$P" "$TIER" 2>&1); RC=$?
echo "$OUT" | grep -E "^VIOLATION|^INCONCLUSIVE|^KNOWN|^SUMMARY" | cut -c1-260 | sort | uniq -c | sort -rn | head -12
echo "exit=$RC"
[ -f /tmp/evidence_$P.bak ] && mv /tmp/evidence_$P.bak evidence/$P.json
git -C /repo checkout -- . ; git -C /repo clean -fdq
