#!/bin/sh
# usage: tools/confirm_seed.sh <property> <n> [dir-prefix, default "seed": /tmp/<prefix>_<property>/<n>]   (independent confirmation of a seeded change in a scratch worktree)
# checks: patch applies, tree builds, the unchanged test suite passes with it, the demo fails with it and passes without it.
P="$1"; N="$2"; PREFIX="${3:-seed}"; S=/tmp/${PREFIX}_$P/$N; WT=/tmp/wtc_${PREFIX}_${P}_$N
export GOFLAGS=-mod=mod GOPROXY=off GOSUMDB=off
OUT=$S/confirm.txt; : > $OUT
git -C /repo worktree add -q --detach $WT HEAD >/dev/null 2>&1 || { echo "worktree failed" >> $OUT; exit 1; }
cd $WT
# where does the demo go? notes.md names the package dir; find "package X" in the demo and a dir hint
PKGDIR=$(grep -oE '(test/e2e|window|condition|stream|aggregator|functions|expr|rsql|cep|utils/cast|module root|\./[a-z/]+)' $S/notes.md | head -1)
DEMO_PKG=$(grep -m1 '^package ' $S/demo_test.go | awk '{print $2}')
case "$DEMO_PKG" in
  streamsql) DIR=. ;;
  e2e) DIR=test/e2e ;;
  *) DIR=$(find . -type d -name "$DEMO_PKG" | grep -v examples | head -1) ;;
esac
[ -z "$DIR" ] && DIR=.
echo "demo package=$DEMO_PKG dir=$DIR" >> $OUT
cp $S/demo_test.go $DIR/zz_seed_demo_test.go
RUNRE=$(grep -oE 'func (Test[A-Za-z0-9_]+)' $S/demo_test.go | awk '{print $2}' | paste -sd'|')
( cd $DIR && go test -vet=off -count=1 -run "^($RUNRE)\$" . ) > $S/demo_without.log 2>&1; echo "demo without change: exit=$?" >> $OUT
git apply $S/patch.diff >> $OUT 2>&1 || { echo "PATCH DOES NOT APPLY" >> $OUT; }
go build ./... >> $OUT 2>&1; echo "build with change: exit=$?" >> $OUT
( cd $DIR && go test -vet=off -count=1 -run "^($RUNRE)\$" . ) > $S/demo_with.log 2>&1; echo "demo with change: exit=$?" >> $OUT
rm -f $DIR/zz_seed_demo_test.go
go test -vet=off -count=1 -timeout 25m ./... > $S/suite_with.log 2>&1; echo "suite with change: exit=$? ($(grep -c '^ok' $S/suite_with.log) ok, $(grep -c '^FAIL\|^--- FAIL' $S/suite_with.log) fail lines)" >> $OUT
cd /; git -C /repo worktree remove --force $WT
cat $OUT
