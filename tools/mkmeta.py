#!/usr/bin/env python3
"""writes seeded/<id>/meta.json from notes.md (title), confirm.txt (independent confirmation) and
seeded/RESULTS.txt (which check/tier detects it); the 'needs' text is maintained here."""
import json,os,re,glob
NEEDS={
"C01-1":"a due window that holds no row while later rows are buffered: k>=4 events with a gap of several windows (the empty-window skip jumps to the window of data[0])",
"C01-2":"a row added through the re-entrant callback while a fired window is being delivered outside the lock (stale pending list)",
"C02-1":"an event timestamp beyond year 2262 (int64-ns wrap in the far-future guard)",
"C02-2":"a sliding window that receives two late rows in sequence after firing (the second late update misses the first late row): >= 5-6 events",
"C03-1":"first_value/last_value with the column ABSENT (not NULL) in the first/last row of the group",
"C03-2":"percentile(col,p) with >= 2 groups aggregated in the same batch (instances created from one initialised prototype share a backing array)",
"C04-1":"a float64 group key with an integral value next to an int key of the same value (1.0 vs 1) in different groups",
"C04-2":"global window, single GROUP BY column whose string value contains the separator/escape characters",
"C05-1":"a projected path with a numeric bracket step; an earlier row with an object at that step, then a row with an array (process-wide cached accessor is re-typed)",
"C05-2":"WHERE chain without parentheses mixing OR before AND, all referenced columns present and numeric",
"C06-1":"division of two int-typed columns with an inexact quotient on the paren-free SELECT route (a / c, a + b / c)",
"C06-2":"two bridge-routed expressions that differ only in the letter case of a column name or string literal, evaluated in one process",
"C07-1":"ORDER BY with >= 2 keys, an explicit DESC followed by a key without direction, and a tie on the earlier key",
"C07-2":"SELECT DISTINCT + HAVING that rejects a group + LIMIT smaller than the number of distinct rows, no ORDER BY",
"C08-1":"size/slide not an integer multiple (e.g. 5/2): rows evicted although a later overlapping window still needs them",
"C08-2":"k>=4 events with a gap so that a run of empty windows is skipped past the watermark",
"C09-1":"two keys firing in turn: buffers of fired keys restart on one shared pre-sized slice",
"C09-2":"string group values containing '|' or the escape character in a counting window key",
"C10-1":"an out-of-order (but on-time) event after a later one in the same session: lastActive is rewound and the session closes early",
"C10-2":"two sessions of different keys closing in the same trigger round (address of a range variable)",
"C11-1":"a statement ending in a lone unterminated backtick where an identifier is unquoted (JOIN ON, OVER PARTITION BY, MATCH_RECOGNIZE items)",
"C11-2":"a real ORDER BY clause preceded by 'order' text inside a literal, a back-quoted identifier or a name ending in 'order'",
"C12-1":"a NULL or missing column in a fast-path comparison with != / <> (answers true instead of deferring to the general path)",
"C12-2":"operators <=, >=, != applied to NaN or to operands of incomparable kinds (expressed as complements of three base relations)",
"C13-1":"text containing '%' (or '_') matched by the expr-package LIKE matcher",
"C13-2":"LIKE pattern with '_' next to a leading/trailing '%' (rewritten to startsWith/endsWith/contains)",
"C14-1":"had_changed with >= 2 value columns and a row on which two columns change at once, then a repeat",
"C14-2":"OVER (... WHEN cond) with a passing row whose result is NULL after an earlier non-NULL result, then a failing row",
"C15-1":"a bounded quantifier X{n,m} with m-n >= 2 and at least n+2 consecutive qualifying rows",
"C15-2":"SKIP PAST LAST ROW, two overlapping candidate starts, the earlier one failing after the shared row",
"C16-1":"uint64 join key >= 2^63 next to the int64 key with the same bit pattern",
"C16-2":"the same key presented as int 1 and as float 1.0 / string '1' after the hot-row memo was filled",
"C17-1":"a trigger predicate column that is NULL on a later row after being non-NULL (shared trigger environment)",
"C17-2":"a row that feeds no trigger aggregate but on which the (already true) predicate should fire",
"C19-1":"two producers and a consumer: a slot is freed before the expanding producer's length snapshot and refilled before its write lock",
"C19-2":"a retry that succeeds after the consumer freed a slot (shadowed 'sent' flag counts the row as dropped too)",
"C20-1":"unnest(col) plus another projected column, the array holding objects (caller's nested maps gain columns)",
"C03-3":"first_value/last_value with the column ABSENT in the first/last row of the group (merged NULL/missing guard; round 3)",
"C03-4":"percentile(v, 1) or percentile(v, 0): an integer literal p is rejected by Init, the error is swallowed and the default p=0.95 is used",
"C05-3":"a flat AND/OR chain of comparisons with one compared column missing or NULL (chain evaluator answers false instead of deferring to the general path)",
"C05-4":"an arithmetic SELECT expression, an earlier row with a non-numeric text operand, then rows with numeric-text / NULL / int operands (fast path switched off for the rest of the stream)",
"C06-3":"a bare col + col reaching the bridge (back-quoted identifiers), first row with text operands, later rows numeric (routing cached per expression text)",
"C06-4":"least() with >= 3 numeric arguments, the first not the minimum, the true minimum next and a later value in between",
"C07-3":"HAVING on an unselected aggregate f(col) while the SELECT list has f(<expression starting with col>) under an alias",
"C07-4":"LIMIT with HAVING and no ORDER BY, more groups than LIMIT, a group before the cut failing HAVING",
"C11-3":"a lower- or mixed-case keyword directly before '(' inside a SELECT expression (case when (..), and (..))",
"C11-4":"ORDER BY with a DESC key followed by a key without direction",
"C14-3":"acc_min/acc_max with the 3-argument form after the reset predicate fired, later values on one side of 0",
"C14-4":"an expression wrapped around an analytic call (v - lag(v)) and a row lacking the column after a row that had it",
"C15-3":"an event lacking a column that DEFINE/MEASURES mention, after an event that had it (evaluation map reused)",
"C15-4":"PERMUTE of three variables with the event orders B C A or C B A",
"C19-3":"two producers: a slot freed before the expanding producer's length snapshot and refilled before its write lock",
"C19-4":"an expansion step where oldCap*GrowthFactor exceeds both oldCap+MinIncrement and MaxBufferSize",
"C20-2":"two instances whose bridge-routed expressions differ only in letter case of a column name or literal",
}
res={}
if os.path.exists('/verif/seeded/RESULTS.txt'):
    for l in open('/verif/seeded/RESULTS.txt'):
        p=l.split()
        if len(p)>=3: res[p[0]]=(p[1],p[2])
for d in sorted(glob.glob('/verif/seeded/C*-*')):
    sid=os.path.basename(d); prop=sid.split('-')[0]
    title=open(d+'/notes.md').readline().strip('# \n')
    conf=open(d+'/confirm.txt').read() if os.path.exists(d+'/confirm.txt') else ''
    def g(pat):
        m=re.search(pat,conf); return m.group(1) if m else None
    tier,ex=res.get(sid,(None,None))
    meta={"id":sid,"breaks_property":prop,"change":title,
      "needs_to_manifest":NEEDS.get(sid,"see notes.md"),
      "author":"fresh sub-agent given only the property text and its own scratch worktree",
      "independently_confirmed":{"how":"tools/confirm_seed.sh in a scratch worktree of /repo (removed afterwards): patch applies, tree builds, full unchanged suite, demo with and without the change",
         "build_with_change_exit":g(r'build with change: exit=(\d+)'),"suite_with_change":g(r'suite with change: (.*)'),
         "demo_without_change_exit":g(r'demo without change: exit=(\d+)'),"demo_with_change_exit":g(r'demo with change: exit=(\d+)')},
      "files":{"patch":"patch.diff","demonstration":sorted(os.path.basename(x) for x in glob.glob(d+'/demo*_test.go')),"notes":"notes.md","confirmation_log":"confirm.txt"},
      "check_result":{"command":"tools/seedtest.sh %s seeded/%s/patch.diff <tier> (git apply in /repo, ./check, git checkout)"%(prop,sid),
         "detected": (ex=="exit=1") if ex else None,"tier":tier,"exit":ex}}
    json.dump(meta,open(d+'/meta.json','w'),indent=1)
print(len(glob.glob('/verif/seeded/C*-*/meta.json')),"meta files")
