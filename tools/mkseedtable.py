#!/usr/bin/env python3
# prints the seed detection matrix (markdown) from seeded/*/meta.json
import json,glob
print("| seed | what the change needs to manifest | check result |")
print("|---|---|---|")
for f in sorted(glob.glob('/verif/seeded/C*-*/meta.json')):
    m=json.load(open(f)); r=m['check_result']
    if r['detected'] is True: res="detected (%s tier)"%r['tier']
    elif r['detected'] is False: res="**not detected** (%s)"%r['exit']
    else: res="not run"
    print("| %s | %s | %s |"%(m['id'],m['needs_to_manifest'],res))
