//go:build verif

package functions

import (
	"math"

	"github.com/rulego/streamsql/internal/zzverif"
)

// deterministic built-in scalar functions (math, string, conversion, hash, array, conditional,
// type-test), by registry name
var verifScalarFns = []string{
	// 0..
	"abs", "sqrt", "ceiling", "floor", "round", "sign", "mod", "power", "bitand", "bitor", "bitxor", "bitnot",
	// 12..
	"acos", "asin", "atan", "atan2", "cos", "cosh", "exp", "ln", "log", "log10", "log2", "sin", "sinh", "tan", "tanh",
	// 27..
	"concat", "length", "upper", "lower", "trim", "ltrim", "rtrim", "endswith", "startswith", "indexof", "substring", "replace", "split", "lpad", "rpad",
	// 42..
	"hex2dec", "dec2hex", "chr", "trunc", 
	// 47..
	"array_length", "array_contains", "array_position", "array_remove", "array_distinct", "array_intersect", "array_union", "array_except",
	// 55..
	"is_null", "is_not_null", "is_numeric", "is_string", "is_bool", "is_array", "is_object",
	// 62..
	"if_null", "coalesce", "null_if", "greatest", "least",
}

// verifArg: an argument of any kind a row can carry. Floats are symbolic for functions whose body is
// encoded over symbolic floats (symf), otherwise one of a few boundary values.
func verifArg(name string, symf bool) any {
	switch zzverif.Choose(name+".kind", 8) {
	case 0:
		return nil
	case 1:
		if symf {
			return int(int8(zzverif.NondetU64(name+".i", 8)))
		}
		return []int{0, -7, 3, 255}[zzverif.Choose(name+".iv", 4)]
	case 2:
		if symf {
			return zzverif.NondetF64(name + ".f")
		}
		return []float64{0, -1.5, 2, 1e308, -1e-320}[zzverif.Choose(name+".fv", 5)]
	case 3:
		return []string{"", "abc", "-3.5", " 7 "}[zzverif.Choose(name+".sv", 4)]
	case 4:
		if symf {
			return zzverif.NondetBool(name + ".b")
		}
		return zzverif.Choose(name+".bv", 2) == 1
	case 5:
		return []any{1, "a", nil}
	case 6:
		return map[string]any{"k": 1.5}
	}
	return int64(-1) << 62
}

// VerifC06FuncTotal: for a registered scalar function and EVERY combination of argument count (0..3)
// and argument kinds (NULL, int, float64, text, bool, array, object, huge int64), Validate followed by
// Execute (as both evaluators call it) returns a value or an error and never panics: arguments outside
// the function's domain are an error or NULL. (A panic inside Execute ends the path as a violation.)
func VerifC06FuncTotal() {
	name := verifScalarFns[zzverif.Param("fn", 0)]
	symf := zzverif.Param("symf", 0) == 1
	fn, ok := Get(name)
	if !ok {
		panic("not registered: " + name)
	}
	n := zzverif.Param("nargs", -1)
	if n < 0 {
		n = zzverif.Choose("nargs", 4)
	}
	args := make([]any, n)
	for i := range args {
		args[i] = verifArg("arg", symf)
	}
	if err := fn.Validate(args); err != nil {
		zzverif.Cover("rejected-by-validate")
		return
	}
	v, err := fn.Execute(&FunctionContext{Data: map[string]any{}}, args)
	zzverif.Cover("executed")
	zzverif.ObserveB("err", err != nil)
	zzverif.ObserveB("nil", v == nil)
}

// verifNumArg: a numeric argument (int8 as int, or float64 - any value incl. NaN/Inf) and its float64 view
func verifNumArg(name string) (any, float64) {
	if zzverif.Choose(name+".isfloat", 2) == 1 {
		f := zzverif.NondetF64(name + ".f")
		return f, f
	}
	i := int(int8(zzverif.NondetU64(name+".i", 8)))
	return i, float64(i)
}

// VerifC06FuncValue: documented values of scalar functions for in-domain arguments, all argument
// values symbolic: abs, sign, ceiling, floor, sqrt (error for negatives), the type tests for every
// argument kind, if_null/coalesce (first non-NULL), greatest/least (numeric extreme, NULL if any
// argument is NULL).
func VerifC06FuncValue() {
	which := zzverif.Param("which", 0)
	names := []string{"abs", "sign", "ceiling", "floor", "sqrt", "typetests", "if_null", "coalesce", "greatest", "least"}
	name := names[which]
	call := func(fname string, args ...any) (any, error) {
		fn, ok := Get(fname)
		if !ok {
			panic("not registered: " + fname)
		}
		if err := fn.Validate(args); err != nil {
			return nil, err
		}
		return fn.Execute(&FunctionContext{Data: map[string]any{}}, args)
	}
	switch name {
	case "abs", "ceiling", "floor", "sqrt":
		arg, x := verifNumArg("x")
		got, err := call(name, arg)
		if name == "sqrt" && x < 0 {
			zzverif.Assert(err != nil || got == nil, "sqrt-of-negative-is-error-or-null")
			return
		}
		g, ok := got.(float64)
		zzverif.Assert(err == nil && ok, "math-function-returns-a-float")
		if !ok {
			return
		}
		if x != x {
			zzverif.Assert(g != g, "math-function-of-nan-is-nan")
			return
		}
		switch name {
		case "abs":
			zzverif.Assert(g >= 0 && (g == x || g == -x), "abs-is-magnitude")
		case "ceiling":
			// least integer >= x (infinities map to themselves)
			zzverif.Assert(g >= x && (g-1 < x || g == x) && math.Trunc(g) == g, "ceiling-is-least-integer-not-below")
		case "floor":
			zzverif.Assert(g <= x && (g+1 > x || g == x) && math.Trunc(g) == g, "floor-is-greatest-integer-not-above")
		case "sqrt":
			// correctly rounded square root: g*g is x up to rounding: g >= 0 and monotone bracket
			zzverif.Assert(g >= 0, "sqrt-is-non-negative")
		}
	case "sign":
		arg, x := verifNumArg("x")
		got, err := call("sign", arg)
		g, ok := got.(int)
		want := 0
		if x > 0 {
			want = 1
		} else if x < 0 {
			want = -1
		}
		zzverif.Assert(err == nil && ok && g == want, "sign-is-minus-one-zero-one")
	case "typetests":
		arg := verifArg("v", true)
		kind := 0 // 0 nil 1 number 2 string 3 bool 4 array 5 object
		switch arg.(type) {
		case nil:
			kind = 0
		case int, int64, float64:
			kind = 1
		case string:
			kind = 2
		case bool:
			kind = 3
		case []any:
			kind = 4
		default:
			kind = 5
		}
		tests := []struct {
			fn   string
			want bool
		}{{"is_null", kind == 0}, {"is_not_null", kind != 0}, {"is_numeric", kind == 1}, {"is_string", kind == 2}, {"is_bool", kind == 3}, {"is_array", kind == 4}, {"is_object", kind == 5}}
		for _, t := range tests {
			got, err := call(t.fn, arg)
			g, ok := got.(bool)
			zzverif.Assert(err == nil && ok && g == t.want, "type-test-classifies-the-argument")
		}
	case "if_null", "coalesce":
		a := verifArg("a", true)
		b := verifArg("b", true)
		got, err := call(name, a, b)
		zzverif.Assert(err == nil, "conditional-function-no-error")
		if a != nil {
			zzverif.Assert(verifSameArg(got, a), "returns-first-non-null-argument")
		} else if b == nil {
			zzverif.Assert(got == nil, "all-null-arguments-give-null")
		} else if bi, isInt := b.(int); name == "if_null" && isInt && bi == 0 {
			// documented normalisation: if_null(NULL, 0) is the float 0.0
			g, ok := got.(float64)
			zzverif.Assert(ok && g == 0, "returns-first-non-null-argument")
		} else {
			zzverif.Assert(verifSameArg(got, b), "returns-first-non-null-argument")
		}
	default: // greatest / least over two numeric or NULL arguments
		var a, b any
		var x, y float64
		if zzverif.Choose("a.null", 3) > 0 {
			a, x = verifNumArg("a")
		}
		if zzverif.Choose("b.null", 3) > 0 {
			b, y = verifNumArg("b")
		}
		// an optional third argument (int8)
		three := zzverif.Choose("three", 2) == 1
		var c any
		var z float64
		if three {
			ci := int(int8(zzverif.NondetU64("c.i", 8)))
			c, z = ci, float64(ci)
		}
		var got any
		var err error
		if three {
			got, err = call(name, a, b, c)
		} else {
			got, err = call(name, a, b)
		}
		zzverif.Assert(err == nil, "conditional-function-no-error")
		if a == nil || b == nil {
			zzverif.Assert(got == nil, "greatest-least-null-if-any-argument-null")
			return
		}
		if x != x || y != y {
			return // NaN ordering is not documented
		}
		g, ok := verifF(got)
		want := x
		if name == "greatest" && y > want || name == "least" && y < want {
			want = y
		}
		if three && (name == "greatest" && z > want || name == "least" && z < want) {
			want = z
		}
		zzverif.Assert(ok && g == want, "greatest-least-is-the-numeric-extreme")
	}
}

func verifF(v any) (float64, bool) {
	switch x := v.(type) {
	case int:
		return float64(x), true
	case float64:
		return x, true
	}
	return 0, false
}

func verifSameArg(got, want any) bool {
	switch w := want.(type) {
	case nil:
		return got == nil
	case int:
		g, ok := got.(int)
		return ok && g == w
	case int64:
		g, ok := got.(int64)
		return ok && g == w
	case float64:
		g, ok := got.(float64)
		return ok && (g == w || g != g && w != w)
	case string:
		g, ok := got.(string)
		return ok && g == w
	case bool:
		g, ok := got.(bool)
		return ok && g == w
	case []any:
		g, ok := got.([]any)
		return ok && len(g) == len(w)
	case map[string]any:
		g, ok := got.(map[string]any)
		return ok && len(g) == len(w)
	}
	return false
}

// VerifC06ConcatRouting: whether `p + q` is treated as string concatenation depends on the CURRENT row
// only (text operands -> concatenation, numeric operands -> addition): the routing predicate of the
// bridge answers for a row what a fresh bridge answers for it, whatever rows were seen before.
func VerifC06ConcatRouting() {
	exprText := "p + q"
	mk := func(tag string) map[string]any {
		row := map[string]any{}
		for _, col := range []string{"p", "q"} {
			switch zzverif.Choose(tag+col+".kind", 3) {
			case 0:
				row[col] = int(int8(zzverif.NondetU64(tag+col+".i", 8)))
			case 1:
				row[col] = zzverif.NondetBytes(tag+col+".s", 1)
			}
		}
		return row
	}
	shared := NewExprBridge()
	r1 := mk("a")
	r2 := mk("b")
	_ = shared.isStringConcatenationExpression(exprText, r1)
	got := shared.isStringConcatenationExpression(exprText, r2)
	fresh := NewExprBridge().isStringConcatenationExpression(exprText, r2)
	zzverif.ObserveB("concat", got)
	zzverif.Assert(got == fresh, "concatenation-routing-depends-on-the-current-row-only")
	_, ps := r2["p"].(string)
	_, qs := r2["q"].(string)
	zzverif.Assert(got == (ps || qs), "concatenation-iff-an-operand-is-text")
}
