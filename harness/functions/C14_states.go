//go:build verif

package functions

import "github.com/rulego/streamsql/internal/zzverif"

// verifAVal: a column value of an analytic function: 8-bit integer, half-integer float, one-byte
// string or NULL.
func verifAVal(name string, kinds int) any {
	switch zzverif.Choose(name+".kind", kinds) {
	case 0:
		return int(int8(zzverif.NondetU64(name+".i", 8)))
	case 1:
		return nil
	case 2:
		return float64(int8(zzverif.NondetU64(name+".h", 8))) / 2
	case 3:
		return zzverif.NondetBytes(name+".s", 1)
	}
	panic("kind")
}

// verifAEq: SQL-ish equality used by the definitions (numbers numerically, NULL only equals NULL).
func verifAEq(a, b any) bool {
	if a == nil || b == nil {
		return a == nil && b == nil
	}
	num := func(v any) (float64, bool) {
		switch x := v.(type) {
		case int:
			return float64(x), true
		case float64:
			return x, true
		}
		return 0, false
	}
	if x, ok := num(a); ok {
		if y, ok2 := num(b); ok2 {
			return x == y
		}
		return false
	}
	if _, ok := num(b); ok {
		return false
	}
	return a.(string) == b.(string)
}

func verifSameAny(got, want any) bool {
	if got == nil || want == nil {
		return got == nil && want == nil
	}
	switch w := want.(type) {
	case int:
		g, ok := got.(int)
		return ok && g == w
	case int64:
		g, ok := got.(int64)
		return ok && g == w
	case float64:
		g, ok := got.(float64)
		return ok && g == w
	case string:
		g, ok := got.(string)
		return ok && g == w
	case bool:
		g, ok := got.(bool)
		return ok && g == w
	}
	return false
}

// VerifC14Lag: lag(v, offset[, default[, ignoreNull]]) over m rows equals the definition on the list
// of earlier rows of the partition.
func VerifC14Lag() {
	m := zzverif.Param("rows", 3)
	kinds := zzverif.Param("kinds", 4)
	offset := 1 + zzverif.Choose("offset", 2)
	argc := 2 + zzverif.Choose("argc", 3) // (v,offset) (v,offset,def) (v,offset,def,ignoreNull)
	ignoreNull := true
	var def any
	if argc >= 3 {
		def = verifAVal("def", kinds)
	}
	if argc >= 4 {
		ignoreNull = zzverif.Choose("ignoreNull", 2) == 1
	}
	st := NewLagFunction().NewState()
	var hist []any
	for i := 0; i < m; i++ {
		v := verifAVal("v", kinds)
		args := []any{v, offset}
		if argc >= 3 {
			args = append(args, def)
		}
		if argc >= 4 {
			args = append(args, ignoreNull)
		}
		got := st.Apply(args)
		var want any
		if len(hist) >= offset {
			want = hist[len(hist)-offset]
		} else if argc >= 3 {
			want = def
		}
		zzverif.Assert(verifSameAny(got, want), "lag-equals-definition")
		if !(ignoreNull && v == nil) {
			hist = append(hist, v)
		}
	}
}

// VerifC14Latest / had_changed / changed_col.
func VerifC14Latest() {
	m := zzverif.Param("rows", 3)
	kinds := zzverif.Param("kinds", 4)
	withDef := zzverif.Choose("withDef", 2) == 1
	var def any
	if withDef {
		def = verifAVal("def", kinds)
	}
	st := NewLatestFunction().NewState()
	var last any
	has := false
	for i := 0; i < m; i++ {
		v := verifAVal("v", kinds)
		args := []any{v}
		if withDef {
			args = append(args, def)
		}
		got := st.Apply(args)
		if v != nil {
			last, has = v, true
		}
		var want any
		if has {
			want = last
		} else if withDef {
			want = def
		}
		zzverif.Assert(verifSameAny(got, want), "latest-equals-definition")
	}
}

func VerifC14Changed() {
	m := zzverif.Param("rows", 3)
	kinds := zzverif.Param("kinds", 4)
	ignoreNull := zzverif.Choose("ignoreNull", 2) == 1
	hc := NewHadChangedFunction().NewState()
	cc := NewChangedColFunction().NewState()
	var prev any
	hasPrev := false   // had_changed: previous effective value
	var prevC any      // changed_col
	hasPrevC := false
	for i := 0; i < m; i++ {
		v := verifAVal("v", kinds)
		gotH := hc.Apply([]any{ignoreNull, v})
		gotC := cc.Apply([]any{ignoreNull, v})
		// had_changed: true on the first row; afterwards true iff the (non-skipped) value differs from
		// the previous effective value
		var wantH bool
		if !hasPrev {
			wantH = true
			prev, hasPrev = v, true
		} else if ignoreNull && v == nil {
			wantH = false
		} else {
			wantH = !verifAEq(prev, v)
			prev = v
		}
		b, ok := gotH.(bool)
		zzverif.Assert(ok && b == wantH, "had_changed-equals-definition")
		// changed_col: the new value when it differs from the previous row's value (or on the first
		// row), NULL otherwise; NULL inputs are skipped when ignoreNull
		var wantC any
		if ignoreNull && v == nil {
			wantC = nil
		} else {
			if !hasPrevC || !verifAEq(prevC, v) {
				wantC = v
			}
			prevC, hasPrevC = v, true
		}
		zzverif.Assert(verifSameAny(gotC, wantC), "changed_col-equals-definition")
	}
}

// VerifC14Acc: acc_sum/count/avg/min/max(v[, start[, reset]]).
func VerifC14Acc() {
	kindNames := []string{"acc_sum", "acc_count", "acc_avg", "acc_max", "acc_min"}
	k := zzverif.Param("acc", 0)
	m := zzverif.Param("rows", 3)
	kinds := zzverif.Param("kinds", 3)
	argc := 1 + zzverif.Choose("argc", 3)
	fn, ok := Get(kindNames[k])
	if !ok {
		panic("not registered: " + kindNames[k])
	}
	st := fn.(StatefulAnalytic).NewState()
	var sum float64
	var cnt int64
	var ext float64
	hasExt, started := false, false
	for i := 0; i < m; i++ {
		v := verifAVal("v", kinds)
		args := []any{v}
		start, reset := true, false
		if argc >= 2 {
			start = zzverif.Choose("start", 2) == 1
			args = append(args, start)
		}
		if argc >= 3 {
			reset = zzverif.Choose("reset", 2) == 1
			args = append(args, reset)
		}
		got := st.Apply(args)
		// definition
		if reset {
			sum, cnt, ext, hasExt, started = 0, 0, 0, false, false
		} else {
			active := true
			if argc >= 2 {
				if !start && !started {
					active = false
				} else {
					started = true
				}
			}
			if active {
				var f float64
				isNum := false
				switch x := v.(type) {
				case int:
					f, isNum = float64(x), true
				case float64:
					f, isNum = x, true
				}
				if isNum {
					cnt++
					sum += f
					if !hasExt {
						ext, hasExt = f, true
					} else if k == 3 {
						ext = zzverif.IteF(f > ext, f, ext)
					} else if k == 4 {
						ext = zzverif.IteF(f < ext, f, ext)
					}
				} else if k == 1 && v != nil {
					cnt++
				}
			}
		}
		var want any
		switch k {
		case 0:
			want = sum
		case 1:
			want = cnt
		case 2:
			if cnt > 0 {
				want = sum / float64(cnt)
			}
		case 3, 4:
			if hasExt {
				want = ext
			}
		}
		zzverif.Assert(verifSameAny(got, want), "acc-equals-definition")
	}
}

// VerifC14ChangedMulti: had_changed(ignoreNull, c1, c2) over several value columns: true on the first
// row; afterwards true iff SOME column's value differs from that column's own most recent non-skipped
// value - every column keeps its own baseline, whatever the other columns did on the same row.
func VerifC14ChangedMulti() {
	m := zzverif.Param("rows", 3)
	kinds := zzverif.Param("kinds", 3)
	ncols := zzverif.Param("cols", 2)
	ignoreNull := zzverif.Choose("ignoreNull", 2) == 1
	hc := NewHadChangedFunction().NewState()
	prev := make([]any, ncols)
	first := true
	for i := 0; i < m; i++ {
		vals := make([]any, ncols)
		args := []any{ignoreNull}
		for c := 0; c < ncols; c++ {
			vals[c] = verifAVal("v", kinds)
			args = append(args, vals[c])
		}
		got := hc.Apply(args)
		want := false
		if first {
			want = true
			first = false
			copy(prev, vals)
		} else {
			for c := 0; c < ncols; c++ {
				if ignoreNull && vals[c] == nil {
					continue
				}
				if !verifAEq(prev[c], vals[c]) {
					want = true
				}
				prev[c] = vals[c]
			}
		}
		b, ok := got.(bool)
		zzverif.Assert(ok && b == want, "had_changed-multi-column-equals-definition")
	}
}
