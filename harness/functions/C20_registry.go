//go:build verif

package functions

import "github.com/rulego/streamsql/internal/zzverif"

// VerifC20Registry: two query instances share the process-wide function registry. What one instance
// does with a registered function (Validate / Execute with its own arguments, creating and feeding its
// own aggregator) must not change what another instance computes: an aggregator created from the
// registry before and after the first instance's activity gives the same result for the same rows.
func VerifC20Registry() {
	names := []string{"nth_value", "percentile", "sum", "first_value", "collect", "lag", "count", "median"}
	name := names[zzverif.Param("fn", 0)]
	vals := []any{int(int8(zzverif.NondetU64("v", 8))), int(int8(zzverif.NondetU64("v", 8))), int(int8(zzverif.NondetU64("v", 8)))}
	run := func() any {
		fn, ok := Get(name)
		if !ok {
			panic("not registered: " + name)
		}
		agg, isAgg := fn.(AggregatorFunction)
		if !isAgg {
			return nil
		}
		inst := agg.New()
		for _, v := range vals {
			inst.Add(v)
		}
		return inst.Result()
	}
	before := run()
	// instance A: validates and executes the function with its own arguments
	if fn, ok := Get(name); ok {
		n := 1 + zzverif.Choose("n", 3)
		args := []any{vals[0], n}
		_ = fn.Validate(args)
		func() {
			defer func() { recover() }()
			_, _ = fn.Execute(&FunctionContext{}, args)
		}()
		if p, isParam := fn.(ParameterizedFunction); isParam {
			inst := p.New()
			if pi, ok := inst.(ParameterizedFunction); ok {
				_ = pi.Init([]any{"x", n})
			}
		}
	}
	after := run()
	same := false
	switch b := before.(type) {
	case nil:
		same = after == nil
	case int:
		a, ok := after.(int)
		same = ok && a == b
	case float64:
		a, ok := after.(float64)
		same = ok && a == b
	case []any:
		a, ok := after.([]any)
		same = ok && len(a) == len(b)
	default:
		same = true
	}
	zzverif.ObserveB("same", same)
	// open finding: NthValueFunction.Validate records n in the registered prototype (region: nth_value)
	zzverif.AssertKF(same, "other-instance-result-unchanged-by-registry-use", "C20-nth-value-prototype-mutation", name == "nth_value")
}

// VerifC20ProgramCache: the process-wide compiled-program cache of the expression bridge is keyed so
// that two DIFFERENT expression texts never share a program (instances with different queries do not
// influence each other), for texts that differ in one arbitrary byte - letter case of a column name
// or of a string literal included. The same text compiled again against the same row type may be
// served from the cache.
func VerifC20ProgramCache() {
	form := zzverif.Param("form", 0)
	b1 := zzverif.NondetBytes("b1", 1)
	b2 := zzverif.NondetBytes("b2", 1)
	isIdent := func(c byte) bool { return c >= 'a' && c <= 'z' || c >= 'A' && c <= 'Z' }
	zzverif.Assume(isIdent(b1[0]) && isIdent(b2[0]))
	var e1, e2 string
	switch form {
	case 0: // column name
		e1, e2 = "upper(device"+b1+")", "upper(device"+b2+")"
	case 1: // string literal
		e1, e2 = "concat(name, '-"+b1+"-')", "concat(name, '-"+b2+"-')"
	default: // function name spelling
		e1, e2 = "ab"+b1+"(x) + 1", "ab"+b2+"(x) + 1"
	}
	bridge := NewExprBridge()
	data := map[string]any{"x": 1}
	p1, err1 := bridge.CompileExpressionWithStreamSQLFunctions(e1, data)
	p2, err2 := bridge.CompileExpressionWithStreamSQLFunctions(e2, data)
	p1again, err3 := bridge.CompileExpressionWithStreamSQLFunctions(e1, data)
	zzverif.Assert(err1 == nil && err2 == nil && err3 == nil && p1 != nil && p2 != nil, "compile-succeeds")
	zzverif.ObserveB("same-text", e1 == e2)
	if e1 != e2 {
		zzverif.Assert(p1 != p2, "different-expression-texts-never-share-a-compiled-program")
		zzverif.Assert(p1again == p1, "a-text-keeps-its-own-program-after-another-text-was-compiled")
	}
}
