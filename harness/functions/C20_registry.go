//go:build verif

package functions

import "github.com/rulego/streamsql/internal/zzverif"

// VerifC20Registry: two query instances share the process-wide function registry. What one instance
// does with a registered function (Validate / Execute with its own arguments, creating and feeding its
// own aggregator) must not change what another instance computes: an aggregator created from the
// registry before and after the first instance's activity gives the same result for the same rows.
func VerifC20Registry() {
	names := []string{"nth_value", "percentile", "sum", "first_value", "collect", "lag", "count", "median"}
	name := names[zzverif.Param("fn", 0)]
	vals := []any{int(int8(zzverif.NondetU64("v", 8))), int(int8(zzverif.NondetU64("v", 8))), int(int8(zzverif.NondetU64("v", 8)))}
	run := func() any {
		fn, ok := Get(name)
		if !ok {
			panic("not registered: " + name)
		}
		agg, isAgg := fn.(AggregatorFunction)
		if !isAgg {
			return nil
		}
		inst := agg.New()
		for _, v := range vals {
			inst.Add(v)
		}
		return inst.Result()
	}
	before := run()
	// instance A: validates and executes the function with its own arguments
	if fn, ok := Get(name); ok {
		n := 1 + zzverif.Choose("n", 3)
		args := []any{vals[0], n}
		_ = fn.Validate(args)
		func() {
			defer func() { recover() }()
			_, _ = fn.Execute(&FunctionContext{}, args)
		}()
		if p, isParam := fn.(ParameterizedFunction); isParam {
			inst := p.New()
			if pi, ok := inst.(ParameterizedFunction); ok {
				_ = pi.Init([]any{"x", n})
			}
		}
	}
	after := run()
	same := false
	switch b := before.(type) {
	case nil:
		same = after == nil
	case int:
		a, ok := after.(int)
		same = ok && a == b
	case float64:
		a, ok := after.(float64)
		same = ok && a == b
	case []any:
		a, ok := after.([]any)
		same = ok && len(a) == len(b)
	default:
		same = true
	}
	zzverif.ObserveB("same", same)
	// open finding: NthValueFunction.Validate records n in the registered prototype (region: nth_value)
	zzverif.AssertKF(same, "other-instance-result-unchanged-by-registry-use", "C20-nth-value-prototype-mutation", name == "nth_value")
}
