//go:build verif

package functions

import "github.com/rulego/streamsql/internal/zzverif"

// VerifC03Isolation: per-group aggregator instances created from one per-query prototype (as the
// aggregation layer does: CreateParameterizedAggregator once per query, New() per group) never leak
// values into each other: the result of group 1 fed INTERLEAVED with group 2 equals the result of a
// fresh instance fed group 1's values alone, for every interleaving and all (symbolic) values; and a
// second batch through the same instances after Reset equals a fresh run too.
func VerifC03Isolation() {
	names := []string{"sum", "avg", "min", "max", "count", "median", "percentile", "collect", "first_value", "last_value", "stddev", "var", "deduplicate", "nth_value", "merge_agg"}
	name := names[zzverif.Param("fn", 0)]
	args := []any{"v"}
	switch name {
	case "percentile":
		args = []any{"v", 0.5}
	case "nth_value":
		args = []any{"v", 2}
	}
	proto, err := CreateParameterizedAggregator(name, args)
	if err != nil || proto == nil {
		panic("cannot create " + name)
	}
	n1 := zzverif.Param("n1", 2)
	n2 := zzverif.Param("n2", 2)
	val := func(tag string) any {
		if zzverif.Param("floats", 0) == 1 {
			return float64(int8(zzverif.NondetU64(tag, 8))) / 2
		}
		return int(int8(zzverif.NondetU64(tag, 8)))
	}
	v1 := make([]any, n1)
	v2 := make([]any, n2)
	for i := range v1 {
		v1[i] = val("a")
	}
	for i := range v2 {
		v2[i] = val("b")
	}
	g1, g2 := proto.New(), proto.New()
	// arbitrary interleaving of the two groups' rows
	i, j := 0, 0
	for i < n1 || j < n2 {
		first := j >= n2 || (i < n1 && zzverif.Choose("pick", 2) == 0)
		if first {
			g1.Add(v1[i])
			i++
		} else {
			g2.Add(v2[j])
			j++
		}
	}
	solo := func(vs []any) any {
		p, _ := CreateParameterizedAggregator(name, args)
		inst := p.New()
		for _, v := range vs {
			inst.Add(v)
		}
		return inst.Result()
	}
	r1, r2 := g1.Result(), g2.Result()
	zzverif.Assert(verifSameAgg(r1, solo(v1)), "group-result-depends-only-on-its-own-rows")
	zzverif.Assert(verifSameAgg(r2, solo(v2)), "group-result-depends-only-on-its-own-rows")
	// next batch: new instances from the same prototype (the aggregation layer discards the old ones)
	h1, h2 := proto.New(), proto.New()
	h2.Add(v2[0])
	h1.Add(v1[0])
	zzverif.Assert(verifSameAgg(h1.Result(), solo(v1[:1])), "next-batch-starts-from-empty-state")
	zzverif.Assert(verifSameAgg(h2.Result(), solo(v2[:1])), "next-batch-starts-from-empty-state")
}

func verifSameAgg(a, b any) bool {
	if a == nil || b == nil {
		return a == nil && b == nil
	}
	switch x := a.(type) {
	case float64:
		y, ok := b.(float64)
		return ok && (x == y || x != x && y != y)
	case int:
		y, ok := b.(int)
		return ok && x == y
	case int64:
		y, ok := b.(int64)
		return ok && x == y
	case string:
		y, ok := b.(string)
		return ok && x == y
	case bool:
		y, ok := b.(bool)
		return ok && x == y
	case []any:
		y, ok := b.([]any)
		if !ok || len(x) != len(y) {
			return false
		}
		for i := range x {
			if !verifSameAgg(x[i], y[i]) {
				return false
			}
		}
		return true
	}
	return false
}

// VerifC03PercentileParam: percentile(v, p) with the second argument as written in SQL - an integer
// literal (0, 1) or a fraction - created the way the aggregation layer does
// (CreateParameterizedAggregator with the parsed literal): the result is the documented order statistic
// sorted[floor(p*(n-1))] of the group's values: p = 0 the minimum, p = 1 the maximum.
func VerifC03PercentileParam() {
	ps := []any{0, 1, 0.0, 1.0, 0.5}
	pf := []float64{0, 1, 0, 1, 0.5}
	k := zzverif.Param("p", 0)
	agg, err := CreateParameterizedAggregator("percentile", []any{"v", ps[k]})
	if err != nil || agg == nil {
		panic("cannot create percentile")
	}
	inst := agg.New()
	n := zzverif.Param("n", 3)
	vals := make([]float64, n)
	for i := range vals {
		x := int(int8(zzverif.NondetU64("v", 8)))
		vals[i] = float64(x)
		inst.Add(x)
	}
	// reference: sort (non-branching compare-exchange), take index floor(p*(n-1))
	sorted := append([]float64(nil), vals...)
	for i := 1; i < n; i++ {
		for j := i; j > 0; j-- {
			lo := zzverif.IteF(sorted[j] < sorted[j-1], sorted[j], sorted[j-1])
			hi := zzverif.IteF(sorted[j] < sorted[j-1], sorted[j-1], sorted[j])
			sorted[j-1], sorted[j] = lo, hi
		}
	}
	want := sorted[int(pf[k]*float64(n-1))]
	got, ok := inst.Result().(float64)
	zzverif.Assert(ok && got == want, "percentile-is-the-documented-order-statistic-for-the-written-p")
}
