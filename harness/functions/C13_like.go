//go:build verif

package functions

import (
	"strings"

	"github.com/rulego/streamsql/internal/zzverif"
)

func verifLikeRef(t, p string) bool {
	n, m := len(t), len(p)
	tab := make([][]bool, n+1)
	for i := range tab {
		tab[i] = make([]bool, m+1)
	}
	tab[n][m] = true
	for i := n; i >= 0; i-- {
		for j := m - 1; j >= 0; j-- {
			isPct := p[j] == '%'
			var viaPct, viaOne bool
			viaPct = tab[i][j+1]
			if i < n {
				viaPct = zzverif.Or(viaPct, tab[i+1][j])
				viaOne = zzverif.And(zzverif.Or(p[j] == '_', p[j] == t[i]), tab[i+1][j+1])
			}
			tab[i][j] = zzverif.IteBool(isPct, viaPct, viaOne)
		}
	}
	return tab[0][0]
}

// VerifC13LikeBridge: (*ExprBridge).matchesLikePattern against the definition.
func VerifC13LikeBridge() {
	tl := zzverif.Param("tl", 2)
	pl := zzverif.Param("pl", 2)
	text := zzverif.NondetBytes("text", tl)
	pat := zzverif.NondetBytes("pat", pl)
	b := &ExprBridge{}
	got := b.matchesLikePattern(text, pat)
	want := verifLikeRef(text, pat)
	zzverif.ObserveB("got", got)
	zzverif.Assert(got == want, "like-equals-definition")
}

const verifLikeAlphabet = "%_a."

// VerifC13LikeRewrite: convertLikeToFunction rewrites `f LIKE 'p'` into an expr-lang operator. For
// every concrete pattern over the alphabet {%,_,a,.} of length pl (enumerated by forking) the chosen
// operator, applied with its strings.* meaning to an arbitrary text of tl bytes, must equal LIKE.
func VerifC13LikeRewrite() {
	tl := zzverif.Param("tl", 2)
	pl := zzverif.Param("pl", 2)
	pb := make([]byte, pl)
	for i := range pb {
		pb[i] = verifLikeAlphabet[zzverif.Choose("p", len(verifLikeAlphabet))]
	}
	pat := string(pb)
	text := zzverif.NondetBytes("text", tl)
	b := &ExprBridge{}
	out := b.convertLikeToFunction("f", pat)
	want := verifLikeRef(text, pat)
	var got bool
	lit := func(prefix string) string { // extract 'lit' after prefix, up to the closing quote
		s := strings.TrimPrefix(out, prefix)
		return s[:len(s)-1]
	}
	switch {
	case out == "true":
		got = true
	case strings.HasPrefix(out, "f == '"):
		got = text == lit("f == '")
	case strings.HasPrefix(out, "f contains '"):
		got = strings.Contains(text, lit("f contains '"))
	case strings.HasPrefix(out, "f startsWith '"):
		got = strings.HasPrefix(text, lit("f startsWith '"))
	case strings.HasPrefix(out, "f endsWith '"):
		got = strings.HasSuffix(text, lit("f endsWith '"))
	case strings.HasPrefix(out, "like_match(f, '"):
		s := strings.TrimPrefix(out, "like_match(f, '")
		p2 := s[:len(s)-2]
		zzverif.Assert(p2 == pat, "rewrite-like_match-keeps-pattern")
		got = b.matchesLikePattern(text, p2)
	default:
		zzverif.Assert(false, "rewrite-unknown-operator")
	}
	zzverif.ObserveS("out", out)
	zzverif.ObserveB("got", got)
	zzverif.Assert(got == want, "rewrite-equals-definition")
}
