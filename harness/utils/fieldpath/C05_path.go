//go:build verif

package fieldpath

import "github.com/rulego/streamsql/internal/zzverif"

// VerifC05PathHistory: a projected column with a nested path (dot steps, numeric bracket steps, quoted
// key steps) is a function of the row alone: GetNestedField on three consecutive rows whose container
// at the bracket step is an array, an object keyed by the index text, a scalar or absent - in every
// order - returns for each row what the path denotes in that row, independently of the rows seen before.
func VerifC05PathHistory() {
	form := zzverif.Param("form", 0)
	paths := []string{"chans[0]", "dev.probes[1].v", "m['k']", "a.b"}
	path := paths[form]
	nrows := zzverif.Param("rows", 3)
	for r := 0; r < nrows; r++ {
		v := int(int8(zzverif.NondetU64("v", 8)))
		kind := zzverif.Choose("kind", 4) // 0 array, 1 object keyed by the index text, 2 scalar, 3 absent
		row := map[string]any{"id": r}
		var want any
		found := false
		switch form {
		case 0:
			switch kind {
			case 0:
				row["chans"] = []any{v, "x"}
				want, found = v, true
			case 1:
				row["chans"] = map[string]any{"0": v}
				want, found = v, true
			case 2:
				row["chans"] = 7
			}
		case 1:
			switch kind {
			case 0:
				row["dev"] = map[string]any{"probes": []any{map[string]any{"v": 1}, map[string]any{"v": v}}}
				want, found = v, true
			case 1:
				row["dev"] = map[string]any{"probes": map[string]any{"1": map[string]any{"v": v}}}
				want, found = v, true
			case 2:
				row["dev"] = map[string]any{"probes": "none"}
			}
		case 2:
			switch kind {
			case 0:
				row["m"] = map[string]any{"k": v}
				want, found = v, true
			case 1:
				row["m"] = map[string]any{"other": v}
			case 2:
				row["m"] = []any{v}
			}
		default:
			switch kind {
			case 0:
				row["a"] = map[string]any{"b": v}
				want, found = v, true
			case 1:
				row["a"] = map[string]any{"c": v}
			case 2:
				row["a"] = v
			}
		}
		got, ok := GetNestedField(row, path)
		zzverif.ObserveB("found", ok)
		zzverif.Assert(ok == found, "path-found-iff-the-row-has-it")
		if found && ok {
			g, isInt := got.(int)
			zzverif.Assert(isInt && g == want.(int), "path-value-is-the-row's-value")
		}
	}
}
