//go:build verif

package condition

import (
	"fmt"

	"github.com/rulego/streamsql/internal/zzverif"
)

// API-level variant of the C12 harness: it uses only NewExprCondition and Condition.Evaluate, so it
// keeps compiling when the internals of the shortcut are refactored. Literals are concrete texts
// (boundary-rich); row values stay fully symbolic.
type verifAPILit struct {
	text string
	gen  any // the constant the general engine sees
}

var verifAPILits = []verifAPILit{
	{"5", 5}, {"-5", -5}, {"0", 0},
	{"9007199254740991", 9007199254740991}, {"9007199254740992", 9007199254740992},
	{"9007199254740993", 9007199254740993}, {"-9007199254740993", -9007199254740993},
	{"9223372036854775807", 9223372036854775807},
	{"0.5", 0.5}, {"-1.25", -1.25}, {"2.0", 2.0},
}

func VerifC12API() {
	op := verifOps[verifPick("op", len(verifOps))]
	kind := verifPick("kind", vkCount)
	lit := verifAPILits[verifPick("lit", len(verifAPILits))]
	text := "x " + op + " " + lit.text
	c1, err := NewExprCondition(text)
	if err != nil {
		panic(fmt.Sprint("expression does not compile: ", text, err))
	}
	v, present := verifValue("x", kind)
	row := map[string]any{}
	if present {
		row["x"] = v
	}
	var dec, gen bool
	if zzverif.Symbolic() {
		dec = c1.Evaluate(row) // leaves the interpreter's reach (path cut) when the shortcut declines
		gen = verifGeneralCmp(op, row["x"], lit.gen)
		zzverif.Cover("shortcut-answered")
	} else {
		c2, err2 := NewExprCondition("(" + text + ")")
		if err2 != nil {
			panic(err2)
		}
		dec = c1.Evaluate(row)
		gen = c2.Evaluate(row)
	}
	zzverif.ObserveB("dec", dec)
	zzverif.ObserveB("gen", gen)
	zzverif.Assert(dec == gen, "shortcut-equals-general")
}

// VerifC12APIChain: flat && / || chains of two comparisons through the public API.
func VerifC12APIChain() {
	isAnd := verifPick("and", 2) == 0
	ops := []string{">", "!=", "<=", "=="}
	op0 := ops[zzverif.Choose("op0", len(ops))]
	op1 := ops[zzverif.Choose("op1", len(ops))]
	l0 := verifAPILits[[]int{0, 8}[zzverif.Choose("l0", 2)]]
	l1 := verifAPILits[[]int{1, 9}[zzverif.Choose("l1", 2)]]
	sep := " || "
	if isAnd {
		sep = " && "
	}
	text := "x " + op0 + " " + l0.text + sep + "y " + op1 + " " + l1.text
	c1, err := NewExprCondition(text)
	if err != nil {
		panic(fmt.Sprint("expression does not compile: ", text, err))
	}
	row := map[string]any{}
	if v, present := verifValue("x", verifPick("xkind", vkCount)); present {
		row["x"] = v
	}
	if v, present := verifValue("y", verifPick("ykind", vkCount)); present {
		row["y"] = v
	}
	var dec, gen bool
	if zzverif.Symbolic() {
		dec = c1.Evaluate(row)
		parts := []*fastCompareProbe{{"x", op0, l0.gen}, {"y", op1, l1.gen}}
		gen = verifGeneralChainAPI(isAnd, parts, row)
	} else {
		c2, err2 := NewExprCondition("(" + text + ")")
		if err2 != nil {
			panic(err2)
		}
		dec = c1.Evaluate(row)
		gen = c2.Evaluate(row)
	}
	zzverif.ObserveB("dec", dec)
	zzverif.ObserveB("gen", gen)
	zzverif.Assert(dec == gen, "chain-shortcut-equals-general")
}

type fastCompareProbe struct {
	field string
	op    string
	lit   any
}

func verifGeneralChainAPI(isAnd bool, parts []*fastCompareProbe, row map[string]any) (res bool) {
	defer func() {
		if r := recover(); r != nil {
			res = false
		}
	}()
	for _, p := range parts {
		r := verifGeneralCmpRaw(p.op, row[p.field], p.lit)
		if isAnd && !r {
			return false
		}
		if !isAnd && r {
			return true
		}
	}
	return isAnd
}
