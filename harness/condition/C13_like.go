//go:build verif

package condition

import "github.com/rulego/streamsql/internal/zzverif"

// verifLikeRef is the reference definition of SQL LIKE without ESCAPE (DESIGN B.8): '%' matches any
// (possibly empty) byte sequence, '_' exactly one byte, every other byte itself. Dynamic programme
// from the back, written with the non-branching helpers so that it is one term, not a fork.
func verifLikeRef(t, p string) bool {
	n, m := len(t), len(p)
	tab := make([][]bool, n+1)
	for i := range tab {
		tab[i] = make([]bool, m+1)
	}
	tab[n][m] = true
	for i := n; i >= 0; i-- {
		for j := m - 1; j >= 0; j-- {
			isPct := p[j] == '%'
			var viaPct, viaOne bool
			viaPct = tab[i][j+1]
			if i < n {
				viaPct = zzverif.Or(viaPct, tab[i+1][j])
				viaOne = zzverif.And(zzverif.Or(p[j] == '_', p[j] == t[i]), tab[i+1][j+1])
			}
			tab[i][j] = zzverif.IteBool(isPct, viaPct, viaOne)
		}
	}
	return tab[0][0]
}

// VerifC13LikeCondition: condition.matchesLikePattern (WHERE/HAVING path through like_match) against
// the definition, for every text of tl bytes and every pattern of pl bytes (all 256 byte values).
func VerifC13LikeCondition() {
	tl := zzverif.Param("tl", 2)
	pl := zzverif.Param("pl", 2)
	text := zzverif.NondetBytes("text", tl)
	pat := zzverif.NondetBytes("pat", pl)
	got := matchesLikePattern(text, pat)
	want := verifLikeRef(text, pat)
	zzverif.ObserveB("got", got)
	if got {
		zzverif.Cover("match")
	} else {
		zzverif.Cover("nomatch")
	}
	zzverif.Assert(got == want, "like-equals-definition")
}
