//go:build verif

package condition

// VerifNewFastCondition is what the symbolic interpreter executes in place of NewExprCondition: the
// same shape recognition (the real tryFastCompound / tryFastCompare), but without compiling the
// expression with expr-lang (its compiler and VM cannot be encoded). A predicate evaluation that does
// not stay on the fast path reaches expr.Run, where the path is cut and counted. Natively (replay) the
// real NewExprCondition runs.
func VerifNewFastCondition(expression string) (Condition, error) {
	ec := &ExprCondition{}
	if fc := tryFastCompound(expression); fc != nil {
		ec.compound = fc
	} else if fc := tryFastCompare(expression); fc != nil {
		ec.fast = fc
	}
	return ec, nil
}
