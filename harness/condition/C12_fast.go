//go:build verif

package condition

import (
	"fmt"

	"github.com/rulego/streamsql/internal/zzverif"
)

var verifFracLits = []string{"0.5", "-1.25", "2.0", "1e3"}
var verifFracVals = []float64{0.5, -1.25, 2.0, 1000}

// verifLiteral chooses a literal: an arbitrary integer literal n (general path sees int(n), the fast
// path ParseFloat(text) = nearest float64 of n) or one of a few fractional literals.
func verifLiteral(name string) (text string, fastLit float64, genLit any) {
	if zzverif.Choose(name+".litkind", 2) == 0 {
		var n int64
		if zzverif.Param("smalllit", 0) == 1 {
			n = int64(int16(zzverif.NondetU64(name+".n16", 16))) // 16-bit literals keep compound chains cheap
		} else {
			n = zzverif.NondetInt64(name + ".n")
		}
		// Integer literals of magnitude >= 2^53 never get a fast path: that is the representation
		// invariant established by tryFastCompare and checked on the boundary texts by
		// VerifC12LiteralGuard (natively every replay goes through the real tryFastCompare anyway).
		zzverif.Assume(n > -(1<<53) && n < (1<<53))
		if !zzverif.Symbolic() {
			text = fmt.Sprintf("%d", n)
		}
		return text, float64(n), int(n)
	}
	k := zzverif.Choose(name+".frac", len(verifFracLits)-1) // 1e3 is not matched by the fast regexp
	return verifFracLits[k], verifFracVals[k], verifFracVals[k]
}

// VerifC12Num: `x OP <numeric literal>` - fast path decision vs general path decision for every
// operator, value kind and payload.
func VerifC12Num() {
	op := verifOps[verifPick("op", len(verifOps))]
	kind := verifPick("kind", vkCount)
	v, present := verifValue("x", kind)
	row := map[string]any{}
	if present {
		row["x"] = v
	}
	text, fastLit, genLit := verifLiteral("lit")
	var dec, gen, usedFast bool
	if zzverif.Symbolic() {
		fc := &fastCompare{field: "x", op: op, numLit: fastLit}
		r, ok := fc.eval(row)
		gen = verifGeneralCmp(op, row["x"], genLit)
		usedFast = ok
		if ok {
			dec = r
			zzverif.Cover("fast-path-taken")
		} else {
			dec = gen
			zzverif.Cover("fast-path-declined")
		}
	} else {
		e := "x " + op + " " + text
		c1, err1 := NewExprCondition(e)
		c2, err2 := NewExprCondition("(" + e + ")")
		if err1 != nil || err2 != nil {
			panic(fmt.Sprint("expression does not compile: ", e, err1, err2))
		}
		ec := c1.(*ExprCondition)
		if ec.fast == nil {
			panic("no fast path recognised for " + e)
		}
		if ec.fast.field != "x" || ec.fast.op != op || ec.fast.numLit != fastLit || ec.fast.isString {
			panic("fast path recognised differently for " + e)
		}
		if c2.(*ExprCondition).fast != nil || c2.(*ExprCondition).compound != nil {
			panic("parenthesised form did not force the general path")
		}
		dec = c1.Evaluate(row)
		gen = c2.Evaluate(row)
	}
	zzverif.ObserveB("dec", dec)
	zzverif.ObserveB("gen", gen)
	_ = usedFast
	zzverif.Assert(dec == gen, "fast-equals-general")
}

// VerifC12Str: `x OP '<string literal>'`.
func VerifC12Str() {
	op := verifOps[verifPick("op", len(verifOps))]
	kind := verifPick("kind", vkCount)
	v, present := verifValue("x", kind)
	row := map[string]any{}
	if present {
		row["x"] = v
	}
	lit := zzverif.NondetString("lit", 2)
	for i := 0; i < len(lit); i++ {
		// the literal must be writable between single quotes in both grammars
		zzverif.Assume(lit[i] != '\'' && lit[i] != '\\' && lit[i] >= 0x20 && lit[i] < 0x7f)
	}
	var dec, gen bool
	if zzverif.Symbolic() {
		fc := &fastCompare{field: "x", op: op, strLit: lit, isString: true}
		r, ok := fc.eval(row)
		gen = verifGeneralCmp(op, row["x"], lit)
		if ok {
			dec = r
			zzverif.Cover("fast-path-taken")
		} else {
			dec = gen
		}
	} else {
		e := "x " + op + " '" + lit + "'"
		c1, err1 := NewExprCondition(e)
		c2, err2 := NewExprCondition("(" + e + ")")
		if err1 != nil || err2 != nil {
			panic(fmt.Sprint("expression does not compile: ", e, err1, err2))
		}
		ec := c1.(*ExprCondition)
		if ec.fast == nil || !ec.fast.isString || ec.fast.strLit != lit || ec.fast.op != op {
			panic("fast path recognised differently for " + e)
		}
		dec = c1.Evaluate(row)
		gen = c2.Evaluate(row)
	}
	zzverif.ObserveB("dec", dec)
	zzverif.ObserveB("gen", gen)
	zzverif.Assert(dec == gen, "fast-equals-general")
}

// VerifC12Compound: flat AND / OR chains of 2..parts comparisons over fields x, y, z. General path:
// short-circuit evaluation left to right, any run-time error rejects the row.
func VerifC12Compound() {
	nparts := zzverif.Param("parts", 2)
	isAnd := zzverif.Choose("and", 2) == 0
	fields := []string{"x", "y", "z"}
	row := map[string]any{}
	parts := make([]*fastCompare, nparts)
	genLits := make([]any, nparts)
	texts := make([]string, nparts)
	for i := 0; i < nparts; i++ {
		// the chain logic does not depend on the operator: two representative ones per part (every
		// operator is covered part-wise by VerifC12Num/VerifC12Str)
		op := []string{">", "!="}[zzverif.Choose("op", 2)]
		kind := verifPick(fields[i]+"kind", vkCount)
		v, present := verifValue(fields[i], kind)
		if present {
			row[fields[i]] = v
		}
		text, fastLit, genLit := verifLiteral(fields[i] + ".lit")
		parts[i] = &fastCompare{field: fields[i], op: op, numLit: fastLit}
		genLits[i] = genLit
		texts[i] = fields[i] + " " + op + " " + text
	}
	var dec, gen bool
	if zzverif.Symbolic() {
		fc := &fastCompound{op: "OR", parts: parts}
		if isAnd {
			fc.op = "AND"
		}
		r, ok := fc.eval(row)
		gen = verifGeneralChain(isAnd, parts, genLits, row)
		if ok {
			dec = r
			zzverif.Cover("compound-fast-taken")
		} else {
			dec = gen
			zzverif.Cover("compound-fast-declined")
		}
	} else {
		sep := " || "
		if isAnd {
			sep = " && "
		}
		e := texts[0]
		for i := 1; i < nparts; i++ {
			e += sep + texts[i]
		}
		c1, err1 := NewExprCondition(e)
		c2, err2 := NewExprCondition("(" + e + ")")
		if err1 != nil || err2 != nil {
			panic(fmt.Sprint("expression does not compile: ", e, err1, err2))
		}
		if c1.(*ExprCondition).compound == nil || len(c1.(*ExprCondition).compound.parts) != nparts {
			panic("no compound fast path recognised for " + e)
		}
		dec = c1.Evaluate(row)
		gen = c2.Evaluate(row)
	}
	zzverif.ObserveB("dec", dec)
	zzverif.ObserveB("gen", gen)
	zzverif.Assert(dec == gen, "compound-fast-equals-general")
}

func verifGeneralChain(isAnd bool, parts []*fastCompare, lits []any, row map[string]any) (res bool) {
	defer func() {
		if r := recover(); r != nil {
			res = false
		}
	}()
	for i, p := range parts {
		r := verifGeneralCmpRaw(p.op, row[p.field], lits[i])
		if isAnd && !r {
			return false
		}
		if !isAnd && r {
			return true
		}
	}
	return isAnd
}


// VerifC12LiteralGuard: shape recognition on concrete boundary texts (regexp executed natively by
// call-out). An integer literal is compared as int by the general engine, so the float64 fast path
// may exist only while the literal is exactly representable and smaller than 2^53 in magnitude.
func VerifC12LiteralGuard() {
	type tc struct {
		text string
		fast bool
		lit  float64
	}
	cases := []tc{
		{"x == 9007199254740991", true, 9007199254740991},
		{"x == -9007199254740991", true, -9007199254740991},
		{"x == 9007199254740992", false, 0},
		{"x == 9007199254740993", false, 0},
		{"x > -9007199254740992", false, 0},
		{"x >= 9223372036854775807", false, 0},
		{"x < 18446744073709551615", false, 0},
		{"x <= 9007199254740993.0", true, 9007199254740992},
		{"x != 0.5", true, 0.5},
		{"x == 5", true, 5},
		{"x = -5", true, -5},
		{"  x<>7.25 ", true, 7.25},
		{"x == 1e3", false, 0},
		{"x.y == 1", false, 0},
		{"x == 'a'", true, 0},
		{"x == 1 && y == 2", false, 0},
	}
	for i, c := range cases {
		fc := tryFastCompare(c.text)
		zzverif.ObserveB("fast", fc != nil)
		if c.fast {
			zzverif.Assert(fc != nil, "literal-guard-accepts")
			if fc != nil && !fc.isString {
				zzverif.Assert(fc.numLit == c.lit && fc.field == "x", "literal-guard-parses")
			}
		} else {
			zzverif.Assert(fc == nil, "literal-guard-declines")
		}
		_ = i
	}
	// compound recognition: flat chains only, every part recognised
	cc := tryFastCompound("x > 1 && y <= 2.5 && z != 3")
	zzverif.Assert(cc != nil && cc.op == "AND" && len(cc.parts) == 3, "compound-recognised")
	zzverif.Assert(tryFastCompound("x > 1 && y < 9007199254740993") == nil, "compound-declines-big-literal")
	zzverif.Assert(tryFastCompound("x > 1 && (y < 2)") == nil, "compound-declines-parens")
	zzverif.Assert(tryFastCompound("x > 1 && y < 2 || z == 3") == nil, "compound-declines-mixed")
}
