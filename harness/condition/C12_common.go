//go:build verif

package condition

import (
	"math"

	"github.com/expr-lang/expr/vm/runtime"
	"github.com/rulego/streamsql/internal/zzverif"
)

var verifOps = []string{"==", "!=", ">", ">=", "<", "<="}

const (
	vkInt = iota
	vkInt64
	vkInt32
	vkUint
	vkUint64
	vkUint32
	vkFloat64
	vkFloat32
	vkInt8
	vkInt16
	vkUint8
	vkUint16
	vkString
	vkBool
	vkNil
	vkMissing
	vkCount
)

// verifValue builds a row value of the given kind with an arbitrary payload (full 64-bit range,
// NaN/Inf/-0 included for floats).
func verifValue(name string, kind int) (any, bool) {
	switch kind {
	case vkInt:
		return int(zzverif.NondetInt64(name + ".i")), true
	case vkInt64:
		return zzverif.NondetInt64(name + ".i"), true
	case vkInt32:
		return int32(zzverif.NondetU64(name+".i32", 32)), true
	case vkUint:
		return uint(zzverif.NondetU64(name+".u", 64)), true
	case vkUint64:
		return zzverif.NondetU64(name+".u", 64), true
	case vkUint32:
		return uint32(zzverif.NondetU64(name+".u32", 32)), true
	case vkFloat64:
		return zzverif.NondetF64(name + ".f"), true
	case vkFloat32:
		return math.Float32frombits(uint32(zzverif.NondetU64(name+".f32", 32))), true
	case vkInt8:
		return int8(zzverif.NondetU64(name+".i8", 8)), true
	case vkInt16:
		return int16(zzverif.NondetU64(name+".i16", 16)), true
	case vkUint8:
		return uint8(zzverif.NondetU64(name+".u8", 8)), true
	case vkUint16:
		return uint16(zzverif.NondetU64(name+".u16", 16)), true
	case vkString:
		return zzverif.NondetString(name+".s", 2), true
	case vkBool:
		return zzverif.NondetBool(name + ".b"), true
	case vkNil:
		return nil, true
	}
	return nil, false
}

// verifGeneralCmp is the general path for `field OP literal` as the expr-lang VM executes it: the
// field is fetched from the map (absent = nil), the literal is a constant, the comparison is the real
// vm/runtime helper, `!=` is OpEqual followed by OpNot, and a run-time error (panic in the helper)
// makes ExprCondition.Evaluate return false.
func verifGeneralCmp(op string, v any, lit any) (res bool) {
	defer func() {
		if r := recover(); r != nil {
			res = false
		}
	}()
	switch op {
	case "==":
		return runtime.Equal(v, lit)
	case "!=":
		return !runtime.Equal(v, lit)
	case ">":
		return runtime.More(v, lit)
	case ">=":
		return runtime.MoreOrEqual(v, lit)
	case "<":
		return runtime.Less(v, lit)
	case "<=":
		return runtime.LessOrEqual(v, lit)
	}
	panic("op")
}

// verifPick takes a configuration value from the job parameters when given (so that configurations
// run as parallel jobs), otherwise forks over all n values.
func verifPick(name string, n int) int {
	if p := zzverif.Param(name, -1); p >= 0 {
		return p
	}
	return zzverif.Choose(name, n)
}

// verifGeneralCmpRaw lets the panic of a failing helper propagate (the whole program fails).
func verifGeneralCmpRaw(op string, v any, lit any) bool {
	switch op {
	case "==":
		return runtime.Equal(v, lit)
	case "!=":
		return !runtime.Equal(v, lit)
	case ">":
		return runtime.More(v, lit)
	case ">=":
		return runtime.MoreOrEqual(v, lit)
	case "<":
		return runtime.Less(v, lit)
	case "<=":
		return runtime.LessOrEqual(v, lit)
	}
	panic("op")
}

