//go:build verif

package expr

import "github.com/rulego/streamsql/internal/zzverif"

// verifLikeRef: reference LIKE (see harness/condition/C13_like.go; repeated per package because the
// harness lives inside the package under test).
func verifLikeRef(t, p string) bool {
	n, m := len(t), len(p)
	tab := make([][]bool, n+1)
	for i := range tab {
		tab[i] = make([]bool, m+1)
	}
	tab[n][m] = true
	for i := n; i >= 0; i-- {
		for j := m - 1; j >= 0; j-- {
			isPct := p[j] == '%'
			var viaPct, viaOne bool
			viaPct = tab[i][j+1]
			if i < n {
				viaPct = zzverif.Or(viaPct, tab[i+1][j])
				viaOne = zzverif.And(zzverif.Or(p[j] == '_', p[j] == t[i]), tab[i+1][j+1])
			}
			tab[i][j] = zzverif.IteBool(isPct, viaPct, viaOne)
		}
	}
	return tab[0][0]
}

// VerifC13LikeExpr: expr.matchLikePattern reached through compareValues(left, right, "LIKE"), the way
// the hand-written evaluator (SELECT expressions, CASE conditions) evaluates `x LIKE p`.
func VerifC13LikeExpr() {
	tl := zzverif.Param("tl", 2)
	pl := zzverif.Param("pl", 2)
	text := zzverif.NondetBytes("text", tl)
	pat := zzverif.NondetBytes("pat", pl)
	got, err := compareStrings(text, pat, "LIKE")
	want := verifLikeRef(text, pat)
	zzverif.ObserveB("got", got)
	zzverif.Assert(err == nil, "like-no-error")
	zzverif.Assert(got == want, "like-equals-definition")
}

// VerifC13IsNull: `x IS NULL` / `x IS NOT NULL` through evaluateIsOperator for x absent, NULL, or present
// with a value of any of the listed kinds. True exactly when absent or NULL.
func VerifC13IsNull() {
	data := map[string]any{}
	kind := zzverif.Choose("kind", 7)
	switch kind {
	case 0: // absent
	case 1:
		data["x"] = nil
	case 2:
		data["x"] = zzverif.NondetInt("i")
	case 3:
		data["x"] = zzverif.NondetF64("f")
	case 4:
		data["x"] = zzverif.NondetString("s", 2)
	case 5:
		data["x"] = zzverif.NondetBool("b")
	case 6:
		data["x"] = zzverif.NondetInt64("i64")
	}
	isNull := kind <= 1
	not := zzverif.Choose("not", 2) == 1
	op := "IS"
	if not {
		op = "IS NOT"
	}
	node := &ExprNode{Type: TypeOperator, Value: op,
		Left:  &ExprNode{Type: TypeField, Value: "x"},
		Right: &ExprNode{Type: TypeField, Value: "NULL"}}
	res, err := evaluateIsOperator(node, data)
	zzverif.Assert(err == nil, "isnull-no-error")
	b, ok := res.(bool)
	zzverif.Assert(ok, "isnull-returns-bool")
	zzverif.ObserveB("res", b)
	zzverif.Assert(b == (isNull != not), "isnull-iff-absent-or-nil")
	// the same through the boolean entry point used for WHERE/CASE conditions
	bb, err2 := evaluateBoolNode(node, data)
	zzverif.Assert(err2 == nil, "isnull-bool-no-error")
	zzverif.Assert(bb == (isNull != not), "isnull-bool-iff-absent-or-nil")
	// a comparison with a NULL / missing operand is not true
	if isNull {
		cmp := &ExprNode{Type: TypeOperator, Value: "==",
			Left:  &ExprNode{Type: TypeField, Value: "x"},
			Right: &ExprNode{Type: TypeNumber, Value: "1"}}
		cb, _ := evaluateBoolNode(cmp, data)
		zzverif.Assert(!cb, "null-comparison-not-true")
	}
}
