//go:build verif

package expr

import (
	"github.com/rulego/streamsql/internal/zzverif"
)

// ---- a tiny expression language of the harness: the reference interpreter works on this tree, the
// engine under test gets its rendering as text ----

type vnode struct {
	op   string // "" = leaf
	l, r *vnode
	col  string  // leaf: column name, or "" for a literal
	lit  float64 // leaf literal
	txt  string  // literal as written
}

func vcol(c string) *vnode                { return &vnode{col: c} }
func vlit(t string, f float64) *vnode     { return &vnode{lit: f, txt: t} }
func vop(op string, l, r *vnode) *vnode   { return &vnode{op: op, l: l, r: r} }
func vprec(op string) int {
	switch op {
	case "*", "/":
		return 2
	}
	return 1
}

// render writes the tree with exactly the parentheses precedence and left-associativity require
// (redundant=true: parentheses around every operator node).
func (n *vnode) render(parent int, right bool, redundant bool) string {
	if n.op == "" {
		if n.col != "" {
			return n.col
		}
		return n.txt
	}
	p := vprec(n.op)
	s := n.l.render(p, false, redundant) + " " + n.op + " " + n.r.render(p, true, redundant)
	if redundant || p < parent || (p == parent && right) {
		return "(" + s + ")"
	}
	return s
}

type vval struct {
	null bool
	f    float64
}

// ref: ordinary SQL semantics over float64 -- a NULL operand makes the result NULL.
func (n *vnode) ref(env map[string]vval) vval {
	if n.op == "" {
		if n.col != "" {
			return env[n.col]
		}
		return vval{f: n.lit}
	}
	a, b := n.l.ref(env), n.r.ref(env)
	if a.null || b.null {
		return vval{null: true}
	}
	switch n.op {
	case "+":
		return vval{f: a.f + b.f}
	case "-":
		return vval{f: a.f - b.f}
	case "*":
		return vval{f: a.f * b.f}
	}
	return vval{f: a.f / b.f}
}

// divisors: every right operand of "/" in the tree
func (n *vnode) divisors(out *[]*vnode) {
	if n.op == "" {
		return
	}
	if n.op == "/" {
		*out = append(*out, n.r)
	}
	n.l.divisors(out)
	n.r.divisors(out)
}

// verifNumCell: a row column: int, float64, NULL or absent. Numeric payloads are 4-bit signed integers,
// floats are such an integer plus 0.5 (exact, so that every intermediate result is finite).
func verifNumCell(row map[string]any, env map[string]vval, name string) {
	k := 0
	if zzverif.Param("intonly", 0) == 1 {
		k = []int{0, 2}[zzverif.Choose(name+".kind", 2)] // int or NULL
	} else {
		k = zzverif.Choose(name+".kind", 4)
	}
	switch k {
	case 0:
		i := int(int8(zzverif.NondetU64(name+".i", 4)<<4) >> 4)
		row[name] = i
		env[name] = vval{f: float64(i)}
	case 1:
		i := int(int8(zzverif.NondetU64(name+".i", 4)<<4) >> 4)
		f := float64(i) + 0.5
		row[name] = f
		env[name] = vval{f: f}
	case 2:
		row[name] = nil
		env[name] = vval{null: true}
	default:
		env[name] = vval{null: true}
	}
}

var verifOps = []string{"+", "-", "*", "/"}

// VerifC06Arith: arithmetic over three columns (and a literal) in every tree shape of depth 2, written
// with minimal or redundant parentheses; every operand int, float64, NULL or absent. All hand-written
// entry points (EvaluateValueWithNull = SELECT fast path, EvaluateWithNull = aggregate arguments,
// Evaluate = legacy numeric) return the reference value: precedence and parentheses are respected,
// ints and floats mix numerically, NULL/absent operand -> NULL.
func VerifC06Arith() {
	shape := zzverif.Param("shape", 0)
	o1 := verifOps[zzverif.Param("op1", 0)]
	o2 := verifOps[zzverif.Param("op2", 0)]
	redundant := zzverif.Param("redundant", 0) == 1
	a, b, c := vcol("a"), vcol("b"), vcol("c")
	var third *vnode = c
	if zzverif.Param("literal", 0) == 1 {
		third = vlit("2.5", 2.5)
	}
	var t *vnode
	switch shape {
	case 0:
		t = vop(o2, vop(o1, a, b), third) // (a o1 b) o2 c
	case 1:
		t = vop(o1, a, vop(o2, b, third)) // a o1 (b o2 c)
	case 2:
		t = vop(o2, vop(o1, a, b), vop(o1, third, a)) // (a o1 b) o2 (c o1 a)
	default:
		t = vop(o1, vop(o2, vop(o1, a, b), third), b) // ((a o1 b) o2 c) o1 b
	}
	text := t.render(0, false, redundant)
	e, err := NewExpression(text)
	zzverif.Assert(err == nil && e != nil && !e.useExprLang, "expression-is-parsed-by-the-hand-written-parser")
	if err != nil || e == nil || e.useExprLang {
		return
	}
	row := map[string]any{}
	env := map[string]vval{}
	verifNumCell(row, env, "a")
	verifNumCell(row, env, "b")
	verifNumCell(row, env, "c")
	// division by zero is excluded by the property
	var ds []*vnode
	t.divisors(&ds)
	for _, d := range ds {
		v := d.ref(env)
		if !v.null {
			zzverif.Assume(v.f != 0)
		}
	}
	want := t.ref(env)

	v, isNull, err := e.EvaluateValueWithNull(row)
	zzverif.ObserveB("null", isNull || v == nil)
	if want.null {
		zzverif.Cover("null-result")
		zzverif.Assert(err == nil && (isNull || v == nil), "null-operand-makes-arithmetic-null")
	} else {
		zzverif.Cover("value-result")
		f, ok := v.(float64)
		zzverif.Assert(err == nil && !isNull && ok && f == want.f, "arithmetic-value-follows-precedence-and-parentheses")
	}
	f2, isNull2, err2 := e.EvaluateWithNull(row)
	if want.null {
		zzverif.Assert(err2 == nil && isNull2, "null-operand-makes-arithmetic-null/EvaluateWithNull")
	} else {
		zzverif.Assert(err2 == nil && !isNull2 && f2 == want.f, "arithmetic-value-follows-precedence-and-parentheses/EvaluateWithNull")
	}
	// the legacy numeric entry point has no NULL: only the non-NULL case is comparable
	if !want.null {
		f3, err3 := e.Evaluate(row)
		zzverif.Assert(err3 == nil && f3 == want.f, "arithmetic-value-follows-precedence-and-parentheses/Evaluate")
	}
}

// ---- CASE ----

// verifAnyCell: a row column: int, float64, 1-byte text, NULL or absent; returns the reference value
// (nil for NULL/absent).
func verifAnyCell(row map[string]any, name string) (val any, absent bool) {
	switch zzverif.Choose(name+".kind", 5) {
	case 0:
		i := int(int8(zzverif.NondetU64(name+".i", 4)<<4) >> 4)
		row[name] = i
		return i, false
	case 1:
		i := int(int8(zzverif.NondetU64(name+".i", 4)<<4) >> 4)
		f := float64(i) + 0.5
		row[name] = f
		return f, false
	case 2:
		s := zzverif.NondetBytes(name+".s", 1)
		row[name] = s
		return s, false
	case 3:
		row[name] = nil
		return nil, false
	}
	return nil, true
}

// verifNum: numeric view of a reference value
func verifNum(v any) (float64, bool) {
	switch x := v.(type) {
	case int:
		return float64(x), true
	case float64:
		return x, true
	}
	return 0, false
}

func verifSameVal(got any, gotNull bool, want any) bool {
	if want == nil {
		return gotNull || got == nil
	}
	if gotNull {
		return false
	}
	switch w := want.(type) {
	case int:
		g, ok := got.(int)
		return ok && g == w
	case float64:
		g, ok := got.(float64)
		return ok && g == w
	case string:
		g, ok := got.(string)
		return ok && g == w
	}
	return false
}

// VerifC06Case: CASE returns the first branch whose condition is true, else ELSE, else NULL; a NULL or
// missing operand makes the WHEN comparison not-true. The condition column is numeric/NULL/absent, the
// branch columns any kind. Checked through EvaluateValueWithNull, the entry point of the SELECT fast path.
func VerifC06Case() {
	form := zzverif.Param("form", 0)
	texts := []string{
		"CASE WHEN a > 1 THEN b WHEN a > 0 THEN c ELSE 9 END",
		"CASE WHEN a > 1 THEN b WHEN a > 0 THEN c END",
		"CASE a WHEN 1 THEN b WHEN 2 THEN c ELSE 9 END",
		"CASE WHEN a > 1 AND d > 1 THEN b WHEN a > 1 OR d > 1 THEN c ELSE 9 END",
		"case when a >= 1 then b else c end",
	}
	e, err := NewExpression(texts[form])
	zzverif.Assert(err == nil && e != nil && !e.useExprLang, "expression-is-parsed-by-the-hand-written-parser")
	if err != nil || e == nil || e.useExprLang {
		return
	}
	row := map[string]any{}
	env := map[string]vval{}
	verifNumCell(row, env, "a")
	_, aAbsent := row["a"]
	aAbsent = !aAbsent
	a := env["a"]
	var d vval
	dAbsent := false
	if form == 3 {
		verifNumCell(row, env, "d")
		_, has := row["d"]
		dAbsent = !has
		d = env["d"]
	}
	bv, _ := verifAnyCell(row, "b")
	cv, _ := verifAnyCell(row, "c")
	gt := func(x vval, k float64) bool { return !x.null && x.f > k }
	var want any
	switch form {
	case 0, 1:
		switch {
		case gt(a, 1):
			want = bv
		case gt(a, 0):
			want = cv
		case form == 0:
			want = 9.0
		}
	case 2:
		switch {
		case !a.null && a.f == 1:
			want = bv
		case !a.null && a.f == 2:
			want = cv
		default:
			want = 9.0
		}
	case 3:
		switch {
		case gt(a, 1) && gt(d, 1):
			want = bv
		case gt(a, 1) || gt(d, 1):
			want = cv
		default:
			want = 9.0
		}
	default:
		if !a.null && a.f >= 1 {
			want = bv
		} else {
			want = cv
		}
	}
	got, isNull, err := e.EvaluateValueWithNull(row)
	zzverif.ObserveB("null", isNull || got == nil)
	// open finding: a comparison whose column operand is absent from the row aborts the whole CASE with
	// "field not found" (the stream then reports NULL) instead of being not-true
	missingOperand := aAbsent && form != 2
	if form == 3 {
		// d is looked at only when the evaluation reaches it (short-circuit AND/OR)
		missingOperand = aAbsent || dAbsent
	}
	zzverif.AssertKF(err == nil && verifSameVal(got, isNull, want), "case-returns-first-true-branch-else-else-else-null",
		"C06-case-missing-column", missingOperand)
}

// VerifC06Compare: comparisons and AND/OR/NOT over two columns of any kind. With both operands numeric
// the result is the numeric comparison (int and float mix); with a NULL operand the comparison is
// not-true; AND/OR/NOT combine the truth values. All four entry points agree.
func VerifC06Compare() {
	ops := []string{">", ">=", "<", "<=", "==", "!=", "=", "<>"}
	op := ops[zzverif.Param("op", 0)]
	form := zzverif.Param("form", 0)
	row := map[string]any{}
	env := map[string]vval{}
	verifNumCell(row, env, "a")
	verifNumCell(row, env, "b")
	_, aHas := row["a"]
	_, bHas := row["b"]
	a, b := env["a"], env["b"]
	cmp := func(x, y vval) bool {
		if x.null || y.null {
			return false
		}
		switch op {
		case ">":
			return x.f > y.f
		case ">=":
			return x.f >= y.f
		case "<":
			return x.f < y.f
		case "<=":
			return x.f <= y.f
		case "==", "=":
			return x.f == y.f
		}
		return x.f != y.f
	}
	two := vval{f: 2}
	var text string
	var want bool
	switch form {
	case 0:
		text = "a " + op + " b"
		want = cmp(a, b)
	case 1:
		text = "a " + op + " 2"
		want = cmp(a, two)
	case 2:
		text = "a " + op + " 2 AND b " + op + " 2"
		want = cmp(a, two) && cmp(b, two)
	case 3:
		text = "a " + op + " 2 OR b " + op + " 2"
		want = cmp(a, two) || cmp(b, two)
	case 4:
		text = "a " + op + " 2 OR b " + op + " 2 AND a " + op + " b"
		want = cmp(a, two) || (cmp(b, two) && cmp(a, b))
	case 5:
		text = "(a " + op + " 2 OR b " + op + " 2) AND a " + op + " b"
		want = (cmp(a, two) || cmp(b, two)) && cmp(a, b)
	case 6:
		text = "NOT a " + op + " 2"
		want = !cmp(a, two)
	default:
		text = "NOT (a " + op + " 2)"
		want = !cmp(a, two)
	}
	e, err := NewExpression(text)
	zzverif.Assert(err == nil && e != nil && !e.useExprLang, "expression-is-parsed-by-the-hand-written-parser")
	if err != nil || e == nil || e.useExprLang {
		return
	}
	// NOT over a NULL operand: three-valued logic is not stated by the property; skipped
	if form >= 6 && a.null {
		return
	}
	// a column absent from the row makes the hand-written comparison fail with "field not found"; the
	// callers (SELECT fast path, WHERE) then fall back to other evaluators. The obligation here is on
	// rows where the evaluation reaches no absent column... for present columns (value or NULL).
	absent := !aHas || (!bHas && form != 1 && form < 6)
	got, err := e.EvaluateBool(row)
	zzverif.ObserveB("got", got)
	if absent {
		// not-true: an error or false, never true, unless the other side of an OR decides
		if err == nil && !want {
			zzverif.Assert(!got, "comparison-with-missing-operand-is-not-true")
		}
		return
	}
	zzverif.Assert(err == nil && got == want, "comparison-and-logic-follow-sql")
	v, isNull, err2 := e.EvaluateValueWithNull(row)
	gb, ok := v.(bool)
	zzverif.Assert(err2 == nil && !isNull && ok && gb == want, "comparison-and-logic-follow-sql/EvaluateValueWithNull")
}
