//go:build verif

package window

import (
	"context"
	"time"

	"github.com/rulego/streamsql/internal/zzverif"
	"github.com/rulego/streamsql/types"
)

func verifSliding(size, slide, ooo, lateness time.Duration, rec *verifRecorder) *SlidingWindow {
	wm := verifWatermark(ooo, 0)
	rec.wm = wm
	sw := &SlidingWindow{
		config: types.WindowConfig{
			Type:               TypeSliding,
			TimeCharacteristic: types.EventTime,
			MaxOutOfOrderness:  ooo,
			AllowedLateness:    lateness,
		},
		size:             size,
		slide:            slide,
		outputChan:       make(chan []types.Row, 100),
		ctx:              context.Background(),
		cancelFunc:       func() {},
		initChan:         make(chan struct{}),
		watermark:        wm,
		triggeredWindows: make(map[string]*triggeredWindowInfo),
	}
	sw.callback = rec.callback
	return sw
}

func verifDrainSliding(sw *SlidingWindow, n int) {
	for i := 0; i < n && len(sw.watermark.watermarkChan) > 0; i++ {
		sw.checkAndTriggerWindows(<-sw.watermark.watermarkChan)
	}
}

// VerifC08Sliding: oracle of DESIGN B.4. Expected deliveries = the slide-aligned intervals [s,s+size)
// with s >= floor(min accepted ts / slide)*slide that contain an accepted event and whose end the
// final watermark has passed; each exactly once, in increasing order, holding every accepted event
// inside it and nothing from outside.
func VerifC08Sliding() {
	k := zzverif.Param("k", 3)
	size := int64(zzverif.Param("size", 4))
	slide := int64(zzverif.Param("slide", 2))
	span := int64(zzverif.Param("span", 3)) // in slides
	base := int64(zzverif.Param("base_slides", 1000)) * slide
	ooo := zzverif.NondetInt64("ooo")
	zzverif.Assume(ooo >= 0 && ooo <= 2*slide)
	rec := &verifRecorder{}
	sw := verifSliding(time.Duration(size), time.Duration(slide), time.Duration(ooo), 0, rec)
	ts := make([]int64, k)
	late := make([]bool, k)
	maxTs := int64(0)
	for i := 0; i < k; i++ {
		ts[i] = verifTs("ts", base, span*slide)
		if i == 0 || ts[i] > maxTs {
			maxTs = ts[i]
		}
		late[i] = ts[i] < maxTs-ooo
		sw.Add(&verifEv{ts: time.Unix(0, ts[i]), id: i})
		rec.ingested = i + 1
		verifDrainSliding(sw, verifPickW("drain"+string(rune('0'+i)), 3))
	}
	sw.watermark.update()
	verifDrainSliding(sw, 1000)
	wmFinal := maxTs - ooo

	// earliest accepted timestamp (an accepted event always exists: the first one is never late)
	minAcc := int64(0)
	haveAcc := false
	for i := 0; i < k; i++ {
		acc := !late[i]
		take := zzverif.And(acc, zzverif.Or(!haveAcc, ts[i] < minAcc))
		minAcc = zzverif.IteInt(take, ts[i], minAcc)
		haveAcc = zzverif.Or(haveAcc, acc)
	}
	s0 := verifFloorDiv(minAcc, slide) * slide

	// candidate starts: every slide-aligned start whose interval can contain a timestamp of the range
	var cands []int64
	for s := base - ((size+slide-1)/slide)*slide; s < base+span*slide; s += slide {
		cands = append(cands, s)
	}
	for _, s := range cands {
		hasAcc, hasLate := false, false
		for i := 0; i < k; i++ {
			in := zzverif.And(ts[i] >= s, ts[i] < s+size)
			hasAcc = zzverif.Or(hasAcc, zzverif.And(!late[i], in))
			hasLate = zzverif.Or(hasLate, zzverif.And(late[i], in))
		}
		due := zzverif.And(s >= s0, s+size <= wmFinal)
		mustFire := zzverif.And(hasAcc, due)
		// an interval holding only late-but-kept rows may be delivered as well (the property neither
		// requires nor forbids keeping a late row that still falls into the not-yet-fired window)
		mayFire := zzverif.And(zzverif.Or(hasAcc, hasLate), due)
		cnt := int64(0)
		for _, d := range rec.ds {
			cnt += zzverif.B2I(d.start == s)
		}
		zzverif.Assert(cnt <= 1, "interval-delivered-at-most-once")
		zzverif.Assert(zzverif.Implies(mustFire, cnt == 1), "interval-with-accepted-event-delivered-once-watermark-passed")
		zzverif.Assert(zzverif.Implies(cnt == 1, mayFire), "no-unexpected-interval-delivered")
	}
	for di, d := range rec.ds {
		zzverif.Assert(len(d.ids) > 0, "delivery-non-empty")
		zzverif.Assert(d.sameSlot, "rows-carry-the-delivery-slot")
		zzverif.Assert(d.end-d.start == size, "slot-has-window-size")
		known := false
		for _, s := range cands {
			known = zzverif.Or(known, d.start == s)
		}
		zzverif.Assert(known, "slot-start-is-slide-aligned")
		if di > 0 {
			zzverif.Assert(rec.ds[di-1].start < d.start, "intervals-delivered-in-increasing-order")
		}
		zzverif.Assert(d.wmAt != 0 && d.wmAt >= d.end, "not-fired-before-watermark-passed-end")
		for i := 0; i < k; i++ {
			in := zzverif.And(ts[i] >= d.start, ts[i] < d.end)
			has := verifContainsID(d.ids, i)
			if has {
				zzverif.Assert(in, "delivered-row-lies-inside-the-interval")
			} else {
				zzverif.Assert(zzverif.Not(zzverif.And(in, !late[i])), "accepted-row-present-in-every-covering-interval")
			}
		}
		for a := 0; a < len(d.ids); a++ {
			for b := a + 1; b < len(d.ids); b++ {
				zzverif.Assert(d.ids[a] != d.ids[b], "row-once-per-interval")
			}
		}
	}
	zzverif.Observe("deliveries", int64(len(rec.ds)))
}
