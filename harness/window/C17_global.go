//go:build verif

package window

import (
	"context"

	"github.com/rulego/streamsql/aggregator"
	"github.com/rulego/streamsql/internal/zzverif"
	"github.com/rulego/streamsql/types"
)

// predicates of the shortcut shapes (anything else is evaluated by the expr-lang VM: cut and counted)
var verifC17Preds = []string{
	"count(*) >= 2",
	"sum(v) > 3",
	"count(*) >= 2 AND sum(v) > 3",
	"max(v) > 2 OR count(*) >= 3",
	"min(v) < 0",
	"avg(v) >= 1.5",
	"count(*) = 2",
	"count(v) >= 2",
	"count(v) = 0 OR count(v) >= 2",
}

// verifC17Eval is the reference evaluation of predicate p on the running aggregates of a group.
// ok=false: an operand is NULL. The general engine then rejects: an ordered comparison with NULL is a
// run-time error, which makes the whole predicate false (none of these predicates uses != on a
// nullable aggregate). The unchanged code evaluates such rows on the expr-lang VM (path cut); if a
// shortcut answers instead, it must answer false.
func verifC17Eval(p int, cnt, cntV int64, sum, mx, mn float64) (fire bool, ok bool) {
	hasV := cntV > 0
	switch p {
	case 0:
		return cnt >= 2, true
	case 1:
		return sum > 3, hasV
	case 2:
		return cnt >= 2 && sum > 3, hasV
	case 3:
		return mx > 2 || cnt >= 3, hasV
	case 4:
		return mn < 0, hasV
	case 5:
		return sum/float64(cntV) >= 1.5, hasV
	case 6:
		return cnt == 2, true
	case 7:
		return cntV >= 2, true
	case 8:
		return cntV == 0 || cntV >= 2, true
	}
	panic("pred")
}

// VerifC17Global: rows of two groups with an integer column v (possibly NULL/missing) are passed to the
// real processRow; the oracle keeps the running aggregates of each group since its last fire.
func VerifC17Global() {
	p := verifPickW("pred", len(verifC17Preds))
	m := zzverif.Param("rows", 3)
	ngroups := zzverif.Param("groups", 2)
	var fired []map[string]any
	gw := &GlobalWindow{
		config: types.WindowConfig{
			Type:             TypeGlobal,
			GroupByKeys:      []string{"g"},
			TriggerCondition: verifC17Preds[p],
			SelectFields:     map[string]aggregator.AggregateType{"n": aggregator.Count, "s": aggregator.Sum},
			FieldAlias:       map[string]string{"n": "*", "s": "v"},
		},
		groupByKeys: []string{"g"},
		groups:      make(map[string]*globalGroupState),
		outputChan:  make(chan []types.Row, 100),
		ctx:         context.Background(),
		cancelFunc:  func() {},
	}
	gw.callback = func(rows []types.Row) {
		for _, r := range rows {
			fired = append(fired, r.Data.(map[string]any))
		}
	}
	if err := gw.buildOutputSpecs(); err != nil {
		panic(err)
	}
	if err := gw.buildTrigger(verifC17Preds[p]); err != nil {
		panic(err)
	}
	type acc struct {
		cnt, cntV    int64
		sum, mx, mn  float64
	}
	accs := make([]acc, ngroups)
	names := []string{"a", "b"}
	for i := 0; i < m; i++ {
		g := verifPickW("grp"+string(rune('0'+i)), ngroups)
		row := map[string]any{"g": names[g]}
		a := &accs[g]
		a.cnt++
		switch zzverif.Choose("vstate", 3) {
		case 0:
			v := int(int8(zzverif.NondetU64("v", 8)))
			row["v"] = v
			f := float64(v)
			if a.cntV == 0 {
				a.mx, a.mn = f, f
			} else {
				if f > a.mx {
					a.mx = f
				}
				if f < a.mn {
					a.mn = f
				}
			}
			a.sum += f
			a.cntV++
		case 1:
			row["v"] = nil
		case 2: // missing
		}
		before := len(fired)
		gw.processRow(types.Row{Data: row})
		want, ok := verifC17Eval(p, a.cnt, a.cntV, a.sum, a.mx, a.mn)
		if !ok {
			zzverif.Cover("null-aggregate-operand")
			want = false
		}
		got := len(fired) - before
		zzverif.Observe("fired", int64(got))
		if want {
			zzverif.Cover("fires")
			zzverif.Assert(got == 1, "group-fires-exactly-when-predicate-holds")
			if got == 1 {
				r := fired[before]
				zzverif.Assert(r["g"] == names[g], "result-carries-its-group-columns")
				zzverif.Assert(r["n"] == float64(a.cnt), "result-count-is-rows-since-last-fire")
				if a.cntV > 0 {
					zzverif.Assert(r["s"] == a.sum, "result-sum-is-sum-since-last-fire")
				} else {
					zzverif.Assert(r["s"] == nil, "result-sum-null-without-usable-input")
				}
			}
			// the group starts again from empty; other groups untouched
			_, still := gw.groups[names[g]]
			zzverif.Assert(!still, "fired-group-is-purged")
			*a = acc{}
		} else {
			zzverif.Cover("holds")
			zzverif.Assert(got == 0, "no-result-while-predicate-false")
		}
	}
}
