//go:build verif

package window

import (
	"context"
	"time"

	"github.com/rulego/streamsql/internal/zzverif"
	"github.com/rulego/streamsql/types"
)

func verifTumbling(size, ooo, lateness time.Duration, rec *verifRecorder) *TumblingWindow {
	wm := verifWatermark(ooo, 0)
	rec.wm = wm
	tw := &TumblingWindow{
		config: types.WindowConfig{
			Type:               TypeTumbling,
			TimeCharacteristic: types.EventTime,
			MaxOutOfOrderness:  ooo,
			AllowedLateness:    lateness,
		},
		size:             size,
		outputChan:       make(chan []types.Row, 100),
		ctx:              context.Background(),
		cancelFunc:       func() {},
		initChan:         make(chan struct{}),
		watermark:        wm,
		triggeredWindows: make(map[string]*triggeredWindowInfo),
	}
	tw.callback = rec.callback
	return tw
}

// verifDrainTumbling performs up to n trigger steps: each takes one watermark from the (real) channel
// and runs the real checkAndTriggerWindows, exactly what the trigger goroutine does.
func verifDrainTumbling(tw *TumblingWindow, n int) {
	for i := 0; i < n && len(tw.watermark.watermarkChan) > 0; i++ {
		tw.checkAndTriggerWindows(<-tw.watermark.watermarkChan)
	}
}

// VerifC01EventTime: k events with arbitrary timestamps in a span of `span` windows, arbitrary
// out-of-orderness bound, arbitrary interleaving of ingest steps with trigger steps.
// Oracle (DESIGN B.2): every event that is not late on arrival is delivered exactly once, in the batch of
// its own size-aligned interval, iff the final watermark passed that interval's end.
func VerifC01EventTime() {
	k := zzverif.Param("k", 3)
	size := int64(zzverif.Param("size", 2))
	span := int64(zzverif.Param("span", 4))
	base := int64(zzverif.Param("base_windows", 1000)) * size
	if zzverif.Param("negative", 0) == 1 {
		base = -base
	}
	ooo := zzverif.NondetInt64("ooo")
	zzverif.Assume(ooo >= 0 && ooo <= 3*size)
	rec := &verifRecorder{}
	tw := verifTumbling(time.Duration(size), time.Duration(ooo), 0, rec)
	ts := make([]int64, k)
	late := make([]bool, k)
	maxTs := int64(0)
	next := 0
	oooMax := int64(zzverif.Param("ooo_max_sizes", 2)) * size
	zzverif.Assume(ooo <= oooMax)
	ingest := func() {
		i := next
		next++
		ts[i] = verifTs("ts", base, span*size)
		if i == 0 || ts[i] > maxTs {
			maxTs = ts[i]
		}
		late[i] = ts[i] < maxTs-ooo
		tw.Add(&verifEv{ts: time.Unix(0, ts[i]), id: i})
		rec.ingested = i + 1
	}
	if zzverif.Param("reentrant", 0) == 1 {
		// the producer may ingest the next event while the trigger goroutine is inside the callback
		// (the window mutex is released around callback/sendResult)
		inner := rec.callback
		tw.callback = func(rows []types.Row) {
			inner(rows)
			if next < k && zzverif.Choose("add-during-callback", 2) == 1 {
				zzverif.Cover("add-during-callback")
				ingest()
			}
		}
	}
	for next < k {
		i := next
		ingest()
		// schedule: the trigger goroutine may run 0..all pending watermarks now
		verifDrainTumbling(tw, verifPickW("drain"+string(rune('0'+i)), 3))
	}
	// quiesce: ticker update (retries a dropped send) and drain everything
	tw.watermark.update()
	verifDrainTumbling(tw, 1000)
	wmFinal := maxTs - ooo

	for di, d := range rec.ds {
		zzverif.Assert(len(d.ids) > 0, "delivery-non-empty")
		zzverif.Assert(d.sameSlot, "rows-carry-the-delivery-slot")
		zzverif.Assert(d.end-d.start == size && verifFloorDiv(d.start, size)*size == d.start, "slot-is-size-aligned-interval")
		for j := range d.ids {
			zzverif.Assert(d.tss[j] >= d.start && d.tss[j] < d.end, "row-inside-its-slot")
			zzverif.Assert(d.tss[j] == ts[d.ids[j]], "row-timestamp-preserved")
		}
		for dj := 0; dj < di; dj++ {
			zzverif.Assert(rec.ds[dj].start != d.start, "no-interval-delivered-twice")
		}
		zzverif.Assert(d.wmAt != 0 && d.wmAt >= d.end, "not-fired-before-watermark-passed-end")
	}
	for i := 0; i < k; i++ {
		n := 0
		var where *verifDelivery
		for di := range rec.ds {
			for _, id := range rec.ds[di].ids {
				if id == i {
					n++
					where = &rec.ds[di]
				}
			}
		}
		zzverif.Assert(n <= 1, "row-in-at-most-one-delivery")
		if late[i] {
			zzverif.Cover("late-row")
			continue // late rows may be kept or dropped; covered by C02
		}
		wStart := verifFloorDiv(ts[i], size) * size
		if wStart+size <= wmFinal {
			zzverif.Cover("accepted-row-due")
			zzverif.Assert(n == 1, "accepted-row-delivered-once-when-watermark-passed")
			if n == 1 {
				zzverif.Assert(where.start == wStart, "accepted-row-in-its-own-interval")
			}
		} else {
			zzverif.Cover("accepted-row-pending")
			zzverif.Assert(n == 0, "row-not-delivered-before-watermark")
			// conservation: an accepted row that has not been delivered yet is still buffered
			inBuf := false
			for _, r := range tw.data {
				if r.Data.(*verifEv).id == i {
					inBuf = true
				}
			}
			zzverif.Assert(inBuf, "accepted-undelivered-row-still-buffered")
		}
	}
	zzverif.Observe("deliveries", int64(len(rec.ds)))
}

// VerifC01ProcessingTime: processing-time mode. Rows are stamped by a monotone clock (carried by the
// event so that the native replay sees the same stamps); Trigger() steps are interleaved under the
// ticker contract "a tick never fires before the end of the interval it emits" (the ticker is created
// at the first row, t0, and ticks at t0+n*size >= aligned start + n*size); ticks may be late or dropped.
// Oracle: once enough ticks have happened, every row is in exactly one delivery, that of its own
// size-aligned interval.
func VerifC01ProcessingTime() {
	k := zzverif.Param("k", 3)
	size := int64(zzverif.Param("size", 2))
	span := int64(zzverif.Param("span", 3))
	base := int64(zzverif.Param("base_windows", 1000)) * size
	rec := &verifRecorder{}
	tw := &TumblingWindow{
		config:           types.WindowConfig{Type: TypeTumbling, TimeCharacteristic: types.ProcessingTime},
		size:             time.Duration(size),
		outputChan:       make(chan []types.Row, 100),
		ctx:              context.Background(),
		cancelFunc:       func() {},
		initChan:         make(chan struct{}),
		triggeredWindows: make(map[string]*triggeredWindowInfo),
	}
	tw.callback = rec.callback
	ts := make([]int64, k)
	clock := base
	for i := 0; i < k; i++ {
		ts[i] = verifTs("ts", base, span*size)
		zzverif.Assume(ts[i] >= clock) // monotone clock
		clock = ts[i]
		tw.Add(&verifEv{ts: time.Unix(0, ts[i]), id: i})
		rec.ingested = i + 1
		// 0..2 ticks are processed now, each only if it is not early
		n := verifPickW("ticks"+string(rune('0'+i)), 3)
		for j := 0; j < n; j++ {
			adv := zzverif.NondetInt64("adv")
			zzverif.Assume(adv >= 0 && adv <= 2*size)
			clock += adv
			if clock >= tw.currentSlot.End.UnixNano() {
				tw.Trigger()
			}
		}
	}
	// quiesce: time passes, every outstanding tick fires
	for j := int64(0); j < span+3; j++ {
		tw.Trigger()
	}
	for di, d := range rec.ds {
		zzverif.Assert(len(d.ids) > 0, "pt-delivery-non-empty")
		zzverif.Assert(d.sameSlot, "pt-rows-carry-the-delivery-slot")
		zzverif.Assert(d.end-d.start == size && verifFloorDiv(d.start, size)*size == d.start, "pt-slot-is-size-aligned-interval")
		for dj := 0; dj < di; dj++ {
			zzverif.Assert(rec.ds[dj].start != d.start, "pt-no-interval-delivered-twice")
		}
	}
	for i := 0; i < k; i++ {
		n := 0
		var where *verifDelivery
		for di := range rec.ds {
			for _, id := range rec.ds[di].ids {
				if id == i {
					n++
					where = &rec.ds[di]
				}
			}
		}
		zzverif.Assert(n == 1, "pt-row-delivered-exactly-once")
		if n == 1 {
			zzverif.Assert(where.start == verifFloorDiv(ts[i], size)*size, "pt-row-in-its-own-interval")
		}
	}
	zzverif.Observe("deliveries", int64(len(rec.ds)))
}
