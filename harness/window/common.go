//go:build verif

package window

import (
	"context"
	"time"

	"github.com/rulego/streamsql/internal/zzverif"
	"github.com/rulego/streamsql/types"
)

// verifEv is a harness event: it carries its event time through the GetTimestamp() branch of
// extractTimestamp, and an id so that deliveries can be matched against the oracle.
type verifEv struct {
	ts  time.Time
	id  int
	Key string // exported: read through reflection by the session key extractor
}

func (e *verifEv) GetTimestamp() time.Time { return e.ts }

type verifDelivery struct {
	start, end int64 // slot bounds (unix ns)
	slot       *types.TimeSlot
	ids        []int
	tss        []int64
	sameSlot   bool  // every row carries the delivery's slot pointer
	wmAt       int64 // watermark (unix ns) when delivered; 0 if none
	seq        int   // number of events ingested before this delivery
}

type verifRecorder struct {
	ds       []verifDelivery
	ingested int
	wm       *Watermark
}

func (r *verifRecorder) callback(rows []types.Row) {
	d := verifDelivery{sameSlot: true, seq: r.ingested}
	if len(rows) > 0 && rows[0].Slot != nil {
		d.slot = rows[0].Slot
		d.start = rows[0].Slot.Start.UnixNano()
		d.end = rows[0].Slot.End.UnixNano()
	}
	for _, row := range rows {
		ev := row.Data.(*verifEv)
		d.ids = append(d.ids, ev.id)
		d.tss = append(d.tss, row.Timestamp.UnixNano())
		if row.Slot != d.slot {
			d.sameSlot = false
		}
	}
	if r.wm != nil && !r.wm.currentWatermark.IsZero() {
		d.wmAt = r.wm.currentWatermark.UnixNano()
	}
	r.ds = append(r.ds, d)
}

// verifWatermark builds the watermark state directly (NewWatermark would start the ticker goroutine;
// the harness performs the ticker's update() steps itself).
func verifWatermark(ooo time.Duration, idle time.Duration) *Watermark {
	return &Watermark{
		maxOutOfOrderness: ooo,
		idleTimeout:       idle,
		watermarkChan:     make(chan time.Time, 100),
		ctx:               context.Background(),
		cancelFunc:        func() {},
	}
}

// verifTs returns an arbitrary timestamp in [lo, lo+span) nanoseconds.
func verifTs(name string, lo, span int64) int64 {
	d := zzverif.NondetInt64(name)
	zzverif.Assume(d >= 0 && d < span)
	return lo + d
}

func verifFloorDiv(a, b int64) int64 {
	q := a / b
	if a%b != 0 && (a < 0) != (b < 0) {
		q--
	}
	return q
}

func verifContainsID(ids []int, id int) bool {
	for _, x := range ids {
		if x == id {
			return true
		}
	}
	return false
}

// verifPickW takes a configuration value from the job parameters when present (parallel jobs),
// otherwise forks over all n values.
func verifPickW(name string, n int) int {
	if p := zzverif.Param(name, -1); p >= 0 {
		return p
	}
	return zzverif.Choose(name, n)
}
