//go:build verif

package window

import (
	"context"
	"time"

	"github.com/rulego/streamsql/internal/zzverif"
	"github.com/rulego/streamsql/types"
)

func verifSession(timeout, ooo, lateness time.Duration, rec *verifRecorder) *SessionWindow {
	wm := verifWatermark(ooo, 0)
	rec.wm = wm
	sw := &SessionWindow{
		config: types.WindowConfig{
			Type:               TypeSession,
			TimeCharacteristic: types.EventTime,
			MaxOutOfOrderness:  ooo,
			AllowedLateness:    lateness,
			GroupByKeys:        []string{"Key"},
		},
		timeout:           timeout,
		sessionMap:        make(map[string]*session),
		outputChan:        make(chan []types.Row, 100),
		ctx:               context.Background(),
		cancelFunc:        func() {},
		initChan:          make(chan struct{}),
		watermark:         wm,
		triggeredSessions: make(map[string]*sessionInfo),
	}
	sw.callback = rec.callback
	return sw
}

func verifDrainSession(sw *SessionWindow, n int) {
	for i := 0; i < n && len(sw.watermark.watermarkChan) > 0; i++ {
		sw.checkAndTriggerSessions(<-sw.watermark.watermarkChan)
	}
}

// VerifC10Session: oracle of DESIGN B.6 over k events of up to two keys.
func VerifC10Session() {
	k := zzverif.Param("k", 3)
	timeout := int64(zzverif.Param("timeout", 3))
	span := int64(zzverif.Param("span", 10))
	base := int64(zzverif.Param("base", 1000000))
	nkeys := zzverif.Param("keys", 2)
	ooo := zzverif.NondetInt64("ooo")
	zzverif.Assume(ooo >= 0 && ooo <= span)
	rec := &verifRecorder{}
	sw := verifSession(time.Duration(timeout), time.Duration(ooo), 0, rec)
	ts := make([]int64, k)
	keyOf := make([]int, k)
	late := make([]bool, k)
	names := []string{"a", "b", "c"}
	maxTs := int64(0)
	for i := 0; i < k; i++ {
		ts[i] = verifTs("ts", base, span)
		keyOf[i] = verifPickW("key"+string(rune('0'+i)), nkeys)
		if i == 0 || ts[i] > maxTs {
			maxTs = ts[i]
		}
		late[i] = ts[i] < maxTs-ooo
		sw.Add(&verifEv{ts: time.Unix(0, ts[i]), id: i, Key: names[keyOf[i]]})
		rec.ingested = i + 1
		verifDrainSession(sw, verifPickW("drain"+string(rune('0'+i)), 3))
	}
	sw.watermark.update()
	verifDrainSession(sw, 1000)
	wmFinal := maxTs - ooo
	// a gap exactly equal to the timeout may go either way (half-open session interval vs "no more
	// than the timeout"): such inputs are left out rather than decided one way
	for i := 0; i < k; i++ {
		for j := i + 1; j < k; j++ {
			if keyOf[i] == keyOf[j] {
				zzverif.Assume(ts[i]-ts[j] != timeout && ts[j]-ts[i] != timeout)
			}
		}
	}

	// between(i,j): some accepted event of the same key lies strictly between ts_i and ts_j
	sameKeyAcc := func(i, j int) bool { return keyOf[i] == keyOf[j] && true }
	between := func(i, j int) bool {
		r := false
		for m := 0; m < k; m++ {
			if m == i || m == j || keyOf[m] != keyOf[i] {
				continue
			}
			lo := zzverif.And(ts[m] > ts[i], ts[m] < ts[j])
			hi := zzverif.And(ts[m] > ts[j], ts[m] < ts[i])
			r = zzverif.Or(r, zzverif.And(!late[m], zzverif.Or(lo, hi)))
		}
		return r
	}
	gapOver := func(i, j int) bool {
		d := ts[i] - ts[j]
		return zzverif.Or(d > timeout, -d > timeout)
	}
	// known finding region: a key has two reference sessions (two accepted events further apart than
	// the timeout with nothing accepted in between)
	multi := false
	for i := 0; i < k; i++ {
		for j := i + 1; j < k; j++ {
			if sameKeyAcc(i, j) {
				split := zzverif.And(zzverif.And(!late[i], !late[j]), zzverif.And(gapOver(i, j), !between(i, j)))
				multi = zzverif.Or(multi, split)
			}
		}
	}
	const kf = "C10-one-session-per-key"
	multiMask := zzverif.And(zzverif.KnownOpen(kf), multi)

	// reference sessions: connected components of the accepted events of one key under "timestamps at
	// most `timeout` apart" (on a line these are exactly the chains cut at gaps above the timeout)
	ref := make([][]bool, k)
	for i := range ref {
		ref[i] = make([]bool, k)
		for j := range ref[i] {
			if keyOf[i] == keyOf[j] {
				ref[i][j] = zzverif.And(zzverif.And(!late[i], !late[j]), !gapOver(i, j))
			}
		}
	}
	for round := 0; round < k; round++ {
		for i := 0; i < k; i++ {
			for j := 0; j < k; j++ {
				for m := 0; m < k; m++ {
					ref[i][j] = zzverif.Or(ref[i][j], zzverif.And(ref[i][m], ref[m][j]))
				}
			}
		}
	}
	for i := 0; i < k; i++ {
		n := 0
		var where *verifDelivery
		for di := range rec.ds {
			for _, id := range rec.ds[di].ids {
				if id == i {
					n++
					where = &rec.ds[di]
				}
			}
		}
		zzverif.Assert(n <= 1, "event-in-at-most-one-session")
		if late[i] {
			zzverif.Cover("late-event")
			zzverif.Assert(n == 0, "late-event-not-reported") // ALLOWEDLATENESS = 0
			continue
		}
		minT, maxT := ts[i], ts[i]
		for j := 0; j < k; j++ {
			if j != i && keyOf[j] == keyOf[i] {
				minT = zzverif.IteInt(zzverif.And(ref[i][j], ts[j] < minT), ts[j], minT)
				maxT = zzverif.IteInt(zzverif.And(ref[i][j], ts[j] > maxT), ts[j], maxT)
			}
		}
		end := maxT + timeout
		if end <= wmFinal {
			zzverif.Cover("session-due")
			zzverif.AssertKF(n == 1, "accepted-event-reported-once-when-watermark-passed", kf, multi)
			if n == 1 {
				zzverif.Assert(zzverif.Or(multiMask, where.start == minT), "window-start-is-earliest-accepted-timestamp")
				zzverif.Assert(zzverif.Or(multiMask, where.end == end), "window-end-is-latest-plus-timeout")
			}
		} else {
			zzverif.Cover("session-pending")
			zzverif.Assert(zzverif.Or(multiMask, n == 0), "session-not-reported-before-watermark")
		}
		if n == 1 {
			// everything reported with it has the same key
			for _, id := range where.ids {
				zzverif.Assert(keyOf[id] == keyOf[i], "session-holds-one-key")
			}
			zzverif.Assert(where.wmAt != 0 && where.wmAt >= where.end, "session-delivered-after-watermark-passed-end")
		}
	}
	// inside a reported session consecutive timestamps differ by at most the timeout, and events of one key
	// further apart than the timeout with nothing between are in different sessions
	for _, d := range rec.ds {
		zzverif.Assert(d.sameSlot, "rows-carry-the-session-slot")
		for a := 0; a < len(d.ids); a++ {
			for b := a + 1; b < len(d.ids); b++ {
				i, j := d.ids[a], d.ids[b]
				zzverif.Assert(i != j, "event-once-per-session")
				split := zzverif.And(gapOver(i, j), !between(i, j))
				zzverif.AssertKF(zzverif.Not(split), "events-further-apart-than-timeout-are-split", kf, multi)
			}
		}
	}
	zzverif.Observe("deliveries", int64(len(rec.ds)))
}
