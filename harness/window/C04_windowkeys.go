//go:build verif

package window

import (
	"github.com/rulego/streamsql/internal/zzverif"
	"github.com/rulego/streamsql/types"
)

const (
	wkString = iota
	wkInt64
	wkFloat64
	wkBool
	wkInt
)

func verifWKVal(name string, kind, slen int) (v any, present bool, isNull bool) {
	switch zzverif.Choose(name+".state", 3) {
	case 1:
		return nil, true, true
	case 2:
		return nil, false, true
	}
	switch kind {
	case wkString:
		return zzverif.NondetString(name+".s", slen), true, false
	case wkInt64:
		return zzverif.NondetInt64(name + ".i"), true, false
	case wkFloat64:
		f := zzverif.NondetF64(name + ".f")
		zzverif.Assume(f == f)
		return f, true, false
	case wkBool:
		return zzverif.NondetBool(name + ".b"), true, false
	case wkInt:
		return int(zzverif.NondetInt64(name + ".i")), true, false
	}
	panic("kind")
}

func verifWKSame(a, b any) bool {
	switch x := a.(type) {
	case string:
		return x == b.(string)
	case int64:
		return x == b.(int64)
	case int:
		return x == b.(int)
	case float64:
		return x == b.(float64)
	case bool:
		return x == b.(bool)
	}
	panic("kind")
}

var verifWKCols = []string{"c0", "c1", "c2"}

// verifTwoRows builds two rows over ncols grouping columns and returns whether their tuples are equal.
func verifTwoRows() (a, b map[string]any, keys []string, equal bool) {
	ncols := zzverif.Param("cols", 1)
	slens := []int{zzverif.Param("slen0", 2), zzverif.Param("slen1", 2), zzverif.Param("slen2", 1)}
	kinds := []int{zzverif.Param("k0", 0), zzverif.Param("k1", 0), zzverif.Param("k2", 0)}
	a, b = map[string]any{}, map[string]any{}
	keys = append([]string(nil), verifWKCols[:ncols]...)
	equal = true
	for c := 0; c < ncols; c++ {
		va, pa, na := verifWKVal(verifWKCols[c]+"a", kinds[c], slens[c])
		vb, pb, nb := verifWKVal(verifWKCols[c]+"b", kinds[c], slens[c])
		if pa {
			a[verifWKCols[c]] = va
		}
		if pb {
			b[verifWKCols[c]] = vb
		}
		var ce bool
		if na || nb {
			ce = na && nb
		} else {
			ce = verifWKSame(va, vb)
		}
		equal = zzverif.And(equal, ce)
	}
	return
}

// The window-level key encoders decide which rows share a count buffer (counting), a session
// (session) or a group (global). They must merge exactly the rows with equal grouping tuples.

func VerifC04CountingKey() {
	a, b, keys, equal := verifTwoRows()
	cw := &CountingWindow{config: types.WindowConfig{GroupByKeys: keys}}
	ka, kb := cw.getKey(a), cw.getKey(b)
	zzverif.ObserveB("same", ka == kb)
	zzverif.Assert((ka == kb) == equal, "counting-key-merges-exactly-equal-tuples")
}

func VerifC04SessionKey() {
	a, b, keys, equal := verifTwoRows()
	ka, kb := extractSessionCompositeKey(a, keys), extractSessionCompositeKey(b, keys)
	zzverif.ObserveB("same", ka == kb)
	zzverif.Assert((ka == kb) == equal, "session-key-merges-exactly-equal-tuples")
}

func VerifC04GlobalKey() {
	a, b, keys, equal := verifTwoRows()
	gw := &GlobalWindow{groupByKeys: keys}
	ka, va := gw.getKeyAndValues(a)
	kb, _ := gw.getKeyAndValues(b)
	zzverif.ObserveB("same", ka == kb)
	zzverif.Assert((ka == kb) == equal, "global-key-merges-exactly-equal-tuples")
	// the reported group column values are the row's own values (NULL for NULL/missing)
	for _, k := range keys {
		want, has := a[k]
		got := va[k]
		if !has || want == nil {
			zzverif.Assert(got == nil, "global-group-values-null")
		} else {
			zzverif.Assert(got != nil && verifWKSame(want, got), "global-group-values-are-row-values")
		}
	}
}
