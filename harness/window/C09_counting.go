//go:build verif

package window

import (
	"context"
	"sync"
	"time"

	"github.com/rulego/streamsql/internal/zzverif"
	"github.com/rulego/streamsql/types"
)

// VerifC09Counting: the real goroutine body of CountingWindow.Start consumes rows sent by Add; the
// scheduler choice after every Add is "consumer runs now" or "later". Oracle (DESIGN B.5): per key
// tuple, the delivered batches are exactly the complete chunks of N consecutive rows of that key in
// arrival order; remainders are never delivered; no row twice.
func VerifC09Counting() {
	n := zzverif.Param("n", 2)
	m := zzverif.Param("rows", 4)
	ncols := zzverif.Param("cols", 1)
	slens := []int{zzverif.Param("slen0", 1), zzverif.Param("slen1", 1)}
	keys := append([]string(nil), verifWKCols[:ncols]...)
	var mu sync.Mutex
	type batch struct {
		ids      []int
		sameSlot bool
	}
	var got []batch
	cw := &CountingWindow{
		config:      types.WindowConfig{Type: TypeCounting, GroupByKeys: keys},
		threshold:   n,
		outputChan:  make(chan []types.Row, 100),
		ctx:         context.Background(),
		cancelFunc:  func() {},
		triggerChan: make(chan types.Row, 100),
		keyedBuffer: make(map[string][]types.Row),
		keyedCount:  make(map[string]int),
		lastActive:  make(map[string]time.Time),
	}
	cw.callback = func(rows []types.Row) {
		b := batch{sameSlot: true}
		for _, r := range rows {
			b.ids = append(b.ids, r.Data.(map[string]any)["id"].(int))
			if r.Slot != rows[0].Slot || r.Slot == nil {
				b.sameSlot = false
			}
		}
		mu.Lock()
		got = append(got, b)
		mu.Unlock()
	}
	cw.Start()
	vals := make([][]any, m)
	nulls := make([][]bool, m)
	for i := 0; i < m; i++ {
		row := map[string]any{"id": i}
		vals[i] = make([]any, ncols)
		nulls[i] = make([]bool, ncols)
		for c := 0; c < ncols; c++ {
			v, present, isNull := verifWKVal(keys[c]+"r"+string(rune('0'+i)), wkString, slens[c])
			if present {
				row[keys[c]] = v
			}
			vals[i][c], nulls[i][c] = v, isNull
		}
		cw.Add(row)
		if verifPickW("sched"+string(rune('0'+i)), 2) == 1 {
			zzverif.Quiesce() // the window goroutine runs now
		}
	}
	zzverif.Quiesce()
	mu.Lock()
	defer mu.Unlock()

	same := func(i, j int) bool {
		eq := true
		for c := 0; c < ncols; c++ {
			var ce bool
			if nulls[i][c] || nulls[j][c] {
				ce = nulls[i][c] && nulls[j][c]
			} else {
				ce = vals[i][c].(string) == vals[j][c].(string)
			}
			eq = zzverif.And(eq, ce)
		}
		return eq
	}
	pos := make([]int64, m)   // index of row i among the rows of its key
	total := make([]int64, m) // number of rows with row i's key
	for i := 0; i < m; i++ {
		for j := 0; j < m; j++ {
			e := zzverif.B2I(same(i, j))
			total[i] += e
			if j < i {
				pos[i] += e
			}
		}
	}
	delivered := make([]int64, m)
	N := int64(n)
	for bi, b := range got {
		zzverif.Assert(len(b.ids) == n, "batch-has-exactly-n-rows")
		zzverif.Assert(b.sameSlot, "batch-rows-share-one-slot")
		for a, id := range b.ids {
			delivered[id]++
			zzverif.Assert(same(id, b.ids[0]), "batch-holds-one-key")
			// consecutive rows of the key, starting at a multiple of N
			zzverif.Assert(pos[id] == pos[b.ids[0]]+int64(a), "batch-rows-are-consecutive-rows-of-the-key")
		}
		if len(b.ids) > 0 {
			zzverif.Assert(pos[b.ids[0]]%N == 0, "batch-starts-at-a-multiple-of-n")
			// batches of one key are delivered in order
			for bj := 0; bj < bi; bj++ {
				if len(got[bj].ids) > 0 {
					zzverif.Assert(zzverif.Implies(same(got[bj].ids[0], b.ids[0]), pos[got[bj].ids[0]] < pos[b.ids[0]]), "batches-of-a-key-in-order")
				}
			}
		}
	}
	for i := 0; i < m; i++ {
		complete := (pos[i]/N+1)*N <= total[i]
		zzverif.Assert(delivered[i] == zzverif.B2I(complete), "row-delivered-once-iff-its-chunk-is-complete")
	}
	zzverif.Observe("batches", int64(len(got)))
}

// VerifC09Deep: longer streams over two or three concrete keys (the key of every row is a forking
// choice), N = 2: reaches states where several keys have already completed a window and fill their next
// ones in an interleaved order.
func VerifC09Deep() {
	n := zzverif.Param("n", 2)
	m := zzverif.Param("rows", 8)
	nkeys := zzverif.Param("keys", 2)
	names := []string{"a", "b", "c"}
	var mu sync.Mutex
	var got [][]int
	cw := &CountingWindow{
		config:      types.WindowConfig{Type: TypeCounting, GroupByKeys: []string{"k"}},
		threshold:   n,
		dataBuffer:  make([]types.Row, 0, n),
		outputChan:  make(chan []types.Row, 100),
		ctx:         context.Background(),
		cancelFunc:  func() {},
		triggerChan: make(chan types.Row, 100),
		keyedBuffer: make(map[string][]types.Row),
		keyedCount:  make(map[string]int),
		lastActive:  make(map[string]time.Time),
	}
	cw.callback = func(rows []types.Row) {
		var ids []int
		for _, r := range rows {
			ids = append(ids, r.Data.(map[string]any)["id"].(int))
		}
		mu.Lock()
		got = append(got, ids)
		mu.Unlock()
	}
	cw.Start()
	keyOf := make([]int, m)
	eager := verifPickW("eager", 2) == 1
	for i := 0; i < m; i++ {
		keyOf[i] = verifPickW("key"+string(rune('0'+i)), nkeys)
		cw.Add(map[string]any{"id": i, "k": names[keyOf[i]]})
		if eager {
			zzverif.Quiesce()
		}
	}
	zzverif.Quiesce()
	mu.Lock()
	defer mu.Unlock()
	// reference: per key, chunks of n consecutive rows
	var want [][]int
	pending := make([][]int, nkeys)
	for i := 0; i < m; i++ {
		k := keyOf[i]
		pending[k] = append(pending[k], i)
		if len(pending[k]) == n {
			want = append(want, pending[k])
			pending[k] = nil
		}
	}
	zzverif.Observe("batches", int64(len(got)))
	zzverif.Assert(len(got) == len(want), "number-of-batches-is-number-of-complete-chunks")
	if len(got) != len(want) {
		return
	}
	for i := range want {
		zzverif.Assert(len(got[i]) == n, "batch-has-exactly-n-rows")
		same := len(got[i]) == len(want[i])
		if same {
			for j := range want[i] {
				if got[i][j] != want[i][j] {
					same = false
				}
			}
		}
		zzverif.Assert(same, "batch-is-the-next-complete-chunk-of-its-key")
	}
}
