//go:build verif

package window

import (
	"time"

	"github.com/rulego/streamsql/internal/zzverif"
)

// verifLateOracle checks, for one window kind, the C02 obligations around one Add:
//   (1) no delivery before some ingested non-garbage event has ts >= end + ooo
//   (3) a late row inside an already-fired window still inside the allowance causes a re-delivery of
//       that very slot holding the previous contents plus the row
//   (4) a row older than watermark - lateness, or a garbage (far-future) row, causes no delivery
// The window-specific parts are passed in as closures.
type verifLateCtx struct {
	size, ooo, lateness int64
	rec                 *verifRecorder
	ts                  []int64
	garbage             []bool
	maxTs               int64
	haveMax             bool
}

// lastDeliveryFor returns the ids of the latest delivery of the slot starting at start (before index upto).
func (c *verifLateCtx) lastDeliveryFor(start int64, upto int) ([]int, bool) {
	for di := upto - 1; di >= 0; di-- {
		if c.rec.ds[di].start == start {
			return c.rec.ds[di].ids, true
		}
	}
	return nil, false
}

func verifSameIDs(a, b []int) bool {
	if len(a) != len(b) {
		return false
	}
	for _, x := range a {
		if !verifContainsID(b, x) {
			return false
		}
	}
	return true
}

// VerifC02TumblingLate: tumbling window with ALLOWEDLATENESS > 0.
func VerifC02TumblingLate() {
	k := zzverif.Param("k", 3)
	size := int64(zzverif.Param("size", 2))
	span := int64(zzverif.Param("span", 3))
	base := int64(zzverif.Param("base_windows", 1000)) * size
	ooo := zzverif.NondetInt64("ooo")
	zzverif.Assume(ooo >= 0 && ooo <= size)
	lateness := zzverif.NondetInt64("lateness")
	zzverif.Assume(lateness >= 1 && lateness <= 2*size)
	rec := &verifRecorder{}
	tw := verifTumbling(time.Duration(size), time.Duration(ooo), time.Duration(lateness), rec)
	c := &verifLateCtx{size: size, ooo: ooo, lateness: lateness, rec: rec}
	garbageAt := zzverif.Param("garbage_at", -1)
	// twin window: sees the same rows except the garbage one, under the same trigger schedule
	rec2 := &verifRecorder{}
	tw2 := verifTumbling(time.Duration(size), time.Duration(ooo), time.Duration(lateness), rec2)
	for i := 0; i < k; i++ {
		var t int64
		g := i == garbageAt
		if g {
			t = verifFarFuture + verifTs("g", 0, 1000)
		} else {
			t = verifTs("ts", base, span*size)
		}
		c.ts = append(c.ts, t)
		c.garbage = append(c.garbage, g)
		wmBefore := tw.watermark.currentWatermark
		maxBefore := tw.watermark.maxEventTime
		nBefore := len(rec.ds)
		bufBefore := len(tw.data)
		if !g && (!c.haveMax || t > c.maxTs) {
			c.maxTs, c.haveMax = t, true
		}
		wmI := c.maxTs - ooo // watermark after this Add (when some non-garbage event was seen)
		tw.Add(&verifEv{ts: time.Unix(0, t), id: i})
		rec.ingested = i + 1
		if garbageAt >= 0 && !g {
			tw2.Add(&verifEv{ts: time.Unix(0, t), id: i})
		}
		caused := rec.ds[nBefore:]
		switch {
		case g:
			zzverif.Cover("garbage-row")
			zzverif.Assert(len(caused) == 0, "garbage-row-causes-no-delivery")
			zzverif.Assert(tw.watermark.currentWatermark.Equal(wmBefore) && tw.watermark.maxEventTime.Equal(maxBefore), "garbage-row-leaves-watermark")
		case c.haveMax && t < wmI:
			// late on arrival
			wStart := verifFloorDiv(t, size) * size
			prev, fired := c.lastDeliveryFor(wStart, nBefore)
			// "Too late" is decided on the window: once the watermark passed end + lateness the
			// allowance is over. (A row older than watermark - lateness whose window is still inside
			// the allowance is covered by both clauses of the property; either outcome is accepted.)
			if wmI >= wStart+size+lateness {
				zzverif.Cover("too-late-row")
				zzverif.Assert(len(caused) == 0, "row-older-than-watermark-minus-lateness-causes-no-delivery")
				if fired {
					// (a late row whose window has not fired yet may still be kept for the first firing:
					// the property neither requires nor forbids that)
					zzverif.Assert(len(tw.data) == bufBefore, "row-for-closed-window-not-buffered")
				}
			} else if fired && wmI < wStart+size+lateness {
				zzverif.Cover("late-update")
				zzverif.Assert(len(caused) == 1, "late-row-in-open-fired-window-redelivers-once")
				if len(caused) == 1 {
					d := caused[0]
					zzverif.Assert(d.start == wStart && d.end == wStart+size, "late-update-keeps-window-id")
					zzverif.Assert(verifSameIDs(d.ids, append(append([]int(nil), prev...), i)), "late-update-is-previous-contents-plus-row")
				}
			}
		default:
			// on time: never dropped at ingest (it is buffered or already delivered)
			inBuf := false
			for _, r := range tw.data {
				if r.Data.(*verifEv).id == i {
					inBuf = true
				}
			}
			zzverif.Assert(inBuf, "on-time-row-kept-at-ingest")
			zzverif.Assert(len(caused) == 0, "on-time-row-causes-no-delivery-by-itself")
		}
		nd := verifPickW("drain"+string(rune('0'+i)), 3)
		verifDrainTumbling(tw, nd)
		if garbageAt >= 0 {
			verifDrainTumbling(tw2, nd)
		}
		// (1) no early firing, for every delivery so far
		for _, d := range rec.ds[nBefore:] {
			zzverif.Assert(c.haveMax && c.maxTs >= d.end+ooo, "no-delivery-before-an-event-reached-end-plus-out-of-orderness")
		}
	}
	if garbageAt >= 0 {
		// quiesce both and compare: the garbage row must not have changed any result
		tw.watermark.update()
		verifDrainTumbling(tw, 1000)
		tw2.watermark.update()
		verifDrainTumbling(tw2, 1000)
		zzverif.Assert(len(rec.ds) == len(rec2.ds), "garbage-row-does-not-change-number-of-results")
		if len(rec.ds) == len(rec2.ds) {
			for di := range rec.ds {
				zzverif.Assert(rec.ds[di].start == rec2.ds[di].start && verifSameIDs(rec.ds[di].ids, rec2.ds[di].ids), "garbage-row-does-not-change-results")
			}
		}
	}
	zzverif.Observe("deliveries", int64(len(rec.ds)))
}

// VerifC02SlidingLate: sliding window with ALLOWEDLATENESS > 0 (windows overlap: the code re-delivers one
// of the open fired windows that contain the late row; the property asks for "a re-delivery").
func VerifC02SlidingLate() {
	k := zzverif.Param("k", 3)
	size := int64(zzverif.Param("size", 4))
	slide := int64(zzverif.Param("slide", 2))
	span := int64(zzverif.Param("span", 3))
	base := int64(zzverif.Param("base_slides", 1000)) * slide
	ooo := zzverif.NondetInt64("ooo")
	zzverif.Assume(ooo >= 0 && ooo <= slide)
	lateness := zzverif.NondetInt64("lateness")
	lateMax := int64(zzverif.Param("late_max", 0)) // 0: up to two slides
	if lateMax == 0 {
		lateMax = 2 * slide
	}
	zzverif.Assume(lateness >= 1 && lateness <= lateMax)
	rec := &verifRecorder{}
	sw := verifSliding(time.Duration(size), time.Duration(slide), time.Duration(ooo), time.Duration(lateness), rec)
	ts := make([]int64, k)
	lateRow := make([]bool, k)
	maxTs := int64(0)
	for i := 0; i < k; i++ {
		ts[i] = verifTs("ts", base, span*slide)
		if i == 0 || ts[i] > maxTs {
			maxTs = ts[i]
		}
		wmI := maxTs - ooo
		lateRow[i] = ts[i] < wmI
		nBefore := len(rec.ds)
		sw.Add(&verifEv{ts: time.Unix(0, ts[i]), id: i})
		rec.ingested = i + 1
		caused := rec.ds[nBefore:]
		if lateRow[i] {
			// fired windows (delivered before) that contain the row and are still inside the allowance
			anyOpen, allClosed := false, true
			for di := 0; di < nBefore; di++ {
				d := rec.ds[di]
				if ts[i] >= d.start && ts[i] < d.end {
					if wmI < d.end+lateness {
						anyOpen = true
						allClosed = false
					}
				}
			}
			if anyOpen {
				zzverif.Cover("sliding-late-update")
				zzverif.Assert(len(caused) >= 1, "late-row-in-open-fired-window-redelivers")
				if len(caused) >= 1 {
					d := caused[0]
					prev, fired := []int(nil), false
					for di := nBefore - 1; di >= 0; di-- {
						if rec.ds[di].start == d.start {
							prev, fired = rec.ds[di].ids, true
							break
						}
					}
					zzverif.Assert(fired && d.end-d.start == size, "late-update-keeps-window-id")
					zzverif.Assert(ts[i] >= d.start && ts[i] < d.end && wmI < d.end+lateness, "late-update-for-an-open-window-containing-the-row")
					zzverif.Assert(verifContainsID(d.ids, i), "late-update-contains-the-late-row")
					for _, p := range prev {
						zzverif.Assert(verifContainsID(d.ids, p), "late-update-contains-previous-contents")
					}
					for _, id := range d.ids {
						ok := verifContainsID(prev, id) || (lateRow[id] && ts[id] >= d.start && ts[id] < d.end)
						zzverif.Assert(ok, "late-update-adds-only-late-rows-of-the-window")
					}
					for a := 0; a < len(d.ids); a++ {
						for b := a + 1; b < len(d.ids); b++ {
							zzverif.Assert(d.ids[a] != d.ids[b], "late-update-counts-each-row-once")
						}
					}
				}
			} else if allClosed && nBefore > 0 {
				// every fired window containing the row is past its allowance (or none contains it)
				inFired := false
				for di := 0; di < nBefore; di++ {
					if ts[i] >= rec.ds[di].start && ts[i] < rec.ds[di].end {
						inFired = true
					}
				}
				if inFired {
					zzverif.Cover("sliding-too-late")
					zzverif.Assert(len(caused) == 0, "row-for-closed-windows-causes-no-delivery")
				}
			}
		} else {
			zzverif.Assert(len(caused) == 0, "on-time-row-causes-no-delivery-by-itself")
		}
		verifDrainSliding(sw, verifPickW("drain"+string(rune('0'+i)), 3))
		for _, d := range rec.ds[nBefore:] {
			zzverif.Assert(maxTs >= d.end+ooo, "no-delivery-before-an-event-reached-end-plus-out-of-orderness")
		}
	}
	zzverif.Observe("deliveries", int64(len(rec.ds)))
}

// VerifC02SessionLate: session window with ALLOWEDLATENESS > 0; two keys.
func VerifC02SessionLate() {
	k := zzverif.Param("k", 3)
	timeout := int64(zzverif.Param("timeout", 3))
	span := int64(zzverif.Param("span", 10))
	base := int64(zzverif.Param("base", 1000000))
	ooo := zzverif.NondetInt64("ooo")
	zzverif.Assume(ooo >= 0 && ooo <= 2)
	lateness := zzverif.NondetInt64("lateness")
	zzverif.Assume(lateness >= 1 && lateness <= span)
	rec := &verifRecorder{}
	sw := verifSession(time.Duration(timeout), time.Duration(ooo), time.Duration(lateness), rec)
	ts := make([]int64, k)
	keyOf := make([]int, k)
	names := []string{"a", "b"}
	maxTs := int64(0)
	for i := 0; i < k; i++ {
		ts[i] = verifTs("ts", base, span)
		keyOf[i] = verifPickW("key"+string(rune('0'+i)), 2)
		if i == 0 || ts[i] > maxTs {
			maxTs = ts[i]
		}
		wmI := maxTs - ooo
		late := ts[i] < wmI
		nBefore := len(rec.ds)
		sw.Add(&verifEv{ts: time.Unix(0, ts[i]), id: i, Key: names[keyOf[i]]})
		rec.ingested = i + 1
		caused := rec.ds[nBefore:]
		if late {
			// the latest delivered session of the same key containing the row
			var prev *verifDelivery
			for di := nBefore - 1; di >= 0; di-- {
				d := &rec.ds[di]
				if len(d.ids) > 0 && keyOf[d.ids[0]] == keyOf[i] && ts[i] >= d.start && ts[i] < d.end {
					prev = d
					break
				}
			}
			if prev != nil && wmI < prev.end+lateness {
				zzverif.Cover("session-late-update")
				zzverif.Assert(len(caused) == 1, "late-event-in-open-session-redelivers-once")
				if len(caused) == 1 {
					d := caused[0]
					zzverif.Assert(d.start == prev.start && d.end == prev.end, "late-update-keeps-session-bounds")
					zzverif.Assert(verifSameIDs(d.ids, append(append([]int(nil), prev.ids...), i)), "late-update-is-previous-contents-plus-event")
				}
			}
			for _, d := range caused {
				for _, id := range d.ids {
					zzverif.Assert(keyOf[id] == keyOf[d.ids[0]], "late-update-holds-one-key")
				}
			}
			if prev == nil {
				// no delivered session of this key contains the row: nothing may be re-delivered
				zzverif.Cover("session-late-no-home")
				zzverif.Assert(len(caused) == 0, "late-event-without-open-session-causes-no-delivery")
			}
		} else {
			zzverif.Assert(len(caused) == 0, "on-time-event-causes-no-delivery-by-itself")
		}
		verifDrainSession(sw, verifPickW("drain"+string(rune('0'+i)), 3))
		for _, d := range rec.ds[nBefore:] {
			zzverif.Assert(maxTs >= d.end+ooo, "no-session-delivered-before-an-event-reached-end-plus-out-of-orderness")
		}
	}
	zzverif.Observe("deliveries", int64(len(rec.ds)))
}
