//go:build verif

package window

import (
	"time"

	"github.com/rulego/streamsql/internal/zzverif"
)

const verifFarFuture = int64(4102444800) * 1e9 // 2100-01-01: more than 24h ahead of any modelled clock

// VerifC02WatermarkStep: one inductive step on the Watermark from an arbitrary valid state. The
// watermark and the last sent watermark never move backwards, the watermark never exceeds
// max(event time) - MAXOUTOFORDERNESS, a far-future timestamp changes nothing, and lateness is decided
// against the current watermark.
func VerifC02WatermarkStep() {
	ooo := zzverif.NondetInt64("ooo")
	zzverif.Assume(ooo >= 0 && ooo <= 1000)
	wm := verifWatermark(time.Duration(ooo), 0)
	fill := zzverif.Choose("chanfill", 3) // 0 empty, 1 some, 2 full (send is dropped and retried later)
	if fill == 2 {
		for i := 0; i < cap(wm.watermarkChan); i++ {
			wm.watermarkChan <- time.Time{}
		}
	} else if fill == 1 {
		wm.watermarkChan <- time.Time{}
	}
	const base = int64(1000000)
	started := zzverif.Choose("started", 2) == 1
	var max0, cur0, sent0 int64
	if started {
		max0 = verifTs("max", base, 1000)
		cur0 = max0 - ooo // invariant of the reachable states (idle branch off)
		sent0 = verifTs("sent", base-2000, 3000)
		zzverif.Assume(sent0 <= cur0)
		wm.maxEventTime = time.Unix(0, max0)
		wm.currentWatermark = time.Unix(0, cur0)
		if zzverif.Choose("sentAny", 2) == 1 {
			wm.lastSentWatermark = time.Unix(0, sent0)
		}
	}
	garbage := zzverif.Choose("garbage", 2) == 1
	var t int64
	if garbage {
		t = verifFarFuture + verifTs("g", 0, 1000)
	} else {
		t = verifTs("t", base-1000, 3000)
	}
	before := len(wm.watermarkChan)
	op := zzverif.Choose("op", 2)
	if op == 0 {
		wm.UpdateEventTime(time.Unix(0, t))
	} else {
		wm.update()
	}
	curZero := wm.currentWatermark.IsZero()
	if started {
		zzverif.Assert(!curZero && wm.currentWatermark.UnixNano() >= cur0, "watermark-monotone")
		zzverif.Assert(!wm.maxEventTime.IsZero() && wm.maxEventTime.UnixNano() >= max0, "max-event-time-monotone")
	}
	if !curZero {
		zzverif.Assert(wm.currentWatermark.UnixNano() == wm.maxEventTime.UnixNano()-ooo, "watermark-is-max-minus-out-of-orderness")
	}
	if garbage || op == 1 {
		// a garbage timestamp (and a ticker step) never changes max event time or the watermark
		if started {
			zzverif.Assert(wm.maxEventTime.UnixNano() == max0 && wm.currentWatermark.UnixNano() == cur0, "garbage-timestamp-ignored")
		} else {
			zzverif.Assert(wm.maxEventTime.IsZero() && curZero, "garbage-timestamp-ignored")
		}
	} else if !started || t > max0 {
		zzverif.Assert(wm.maxEventTime.UnixNano() == t, "max-event-time-updated")
	}
	if !wm.lastSentWatermark.IsZero() {
		zzverif.Assert(!curZero && wm.lastSentWatermark.UnixNano() <= wm.currentWatermark.UnixNano(), "sent-watermark-not-ahead")
	}
	after := len(wm.watermarkChan)
	if fill == 2 {
		zzverif.Assert(after == before, "full-channel-drops-send")
	} else if after > before {
		zzverif.Cover("watermark-sent")
		zzverif.Assert(wm.lastSentWatermark.Equal(wm.currentWatermark), "sent-watermark-recorded")
	}
	// lateness test against the current watermark
	probe := verifTs("probe", base-2000, 5000)
	lateNow := wm.IsEventTimeLate(time.Unix(0, probe))
	if curZero {
		zzverif.Assert(!lateNow, "nothing-late-before-first-watermark")
	} else {
		zzverif.Assert(lateNow == (probe < wm.currentWatermark.UnixNano()), "late-iff-older-than-watermark")
	}
}

// VerifC02Timestamp: extractTimestamp on map rows and what an event-time tumbling window does with
// rows that have no usable timestamp: they are not buffered and do not move the watermark.
func VerifC02Timestamp() {
	unit := []time.Duration{0, time.Millisecond, time.Second, time.Nanosecond}[zzverif.Choose("unit", 4)]
	row := map[string]any{"v": 1}
	kind := zzverif.Choose("kind", 8)
	usable := false
	var wantNs int64
	// payload: 12 symbolic bits (multiplication by 10^6 / 10^9 of wider symbolic values stalls every
	// available solver; the unit scaling itself is exercised on these values)
	n := int64(zzverif.NondetU64("n", 12))
	scale := func(v int64) int64 {
		switch unit {
		case time.Millisecond:
			return v * 1000000
		case time.Second:
			return v * 1000000000
		}
		return v
	}
	switch kind {
	case 0: // missing
	case 1:
		row["ts"] = nil
	case 2:
		row["ts"] = "not-a-number"
	case 3:
		row["ts"] = n
		usable, wantNs = unit != 0, scale(n)
	case 4:
		row["ts"] = int(n)
		usable, wantNs = unit != 0, scale(n)
	case 5:
		n = []int64{0, 1700000000, 1700000000123}[zzverif.Choose("fval", 3)]
		row["ts"] = float64(n) // JSON numbers arrive as float64 (concrete samples: float->int of symbolic values is out of reach)
		usable, wantNs = unit != 0, scale(n)
	case 6:
		row["ts"] = "1700000000"
		usable, wantNs = unit != 0, scale(1700000000)
	case 7:
		row["ts"] = time.Unix(0, n)
		usable, wantNs = true, n
	}
	got, ok := extractTimestamp(row, "ts", unit)
	zzverif.ObserveB("ok", ok)
	zzverif.Assert(ok == usable, "timestamp-usable-iff-present-numeric-with-unit")
	if ok && usable {
		zzverif.Assert(got.UnixNano() == wantNs, "timestamp-value-scaled-by-unit")
	}
	// through the window: unusable rows are dropped without touching buffer or watermark
	rec := &verifRecorder{}
	tw := verifTumbling(time.Duration(2000000000), 0, 0, rec)
	tw.config.TsProp = "ts"
	tw.config.TimeUnit = unit
	tw.Add(row)
	if !usable {
		zzverif.Cover("unusable-timestamp")
		zzverif.Assert(len(tw.data) == 0, "row-without-usable-timestamp-not-buffered")
		zzverif.Assert(tw.watermark.maxEventTime.IsZero() && tw.watermark.currentWatermark.IsZero(), "row-without-usable-timestamp-leaves-watermark")
		zzverif.Assert(!tw.initialized, "row-without-usable-timestamp-does-not-anchor-window")
	} else {
		zzverif.Cover("usable-timestamp")
		zzverif.Assert(len(tw.data) == 1 && tw.data[0].Timestamp.UnixNano() == wantNs, "row-with-timestamp-buffered-at-its-event-time")
	}
}
