//go:build verif

package stream

import "github.com/rulego/streamsql/internal/zzverif"

// VerifC15PartitionKey: the MATCH_RECOGNIZE partition key (cepRunner.partitionKey) maps two rows to
// the same partition exactly when their PARTITION BY tuples are equal (typed; a missing column is
// NULL) -- otherwise events of another partition would be fed into this partition's runs.
func VerifC15PartitionKey() {
	ncols := zzverif.Param("cols", 1)
	cols := []string{"p0", "p1"}[:ncols]
	cr := &cepRunner{partitionBy: cols}
	a, b := map[string]any{}, map[string]any{}
	equal := true
	for c := 0; c < ncols; c++ {
		ka := zzverif.Choose("ka", 4)
		kb := zzverif.Choose("kb", 4)
		mk := func(name string, k int) any {
			switch k {
			case 0:
				return zzverif.NondetString(name+".s", 2)
			case 1:
				return []int{0, 7, 10, -1, 123456}[zzverif.Choose(name+".ival", 5)]
			case 2:
				return nil
			}
			return zzverif.NondetBool(name + ".b")
		}
		va, vb := mk(cols[c]+"a", ka), mk(cols[c]+"b", kb)
		if ka != 2 || zzverif.Choose("present", 2) == 1 {
			a[cols[c]] = va
		}
		b[cols[c]] = vb
		var ce bool
		switch {
		case ka != kb:
			ce = false
		case ka == 0:
			ce = va.(string) == vb.(string)
		case ka == 1:
			ce = va.(int) == vb.(int)
		case ka == 2:
			ce = true
		default:
			ce = va.(bool) == vb.(bool)
		}
		equal = zzverif.And(equal, ce)
	}
	ka, kb := cr.partitionKey(a), cr.partitionKey(b)
	zzverif.ObserveB("same", ka == kb)
	zzverif.Assert((ka == kb) == equal, "partition-key-merges-exactly-equal-tuples")
}
