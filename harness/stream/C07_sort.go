//go:build verif

package stream

import (
	"github.com/rulego/streamsql/internal/zzverif"
	"github.com/rulego/streamsql/logger"
	"github.com/rulego/streamsql/metrics"
	"github.com/rulego/streamsql/types"
)

// verifOrdVal: an ORDER BY key value: 8-bit integer, half-integer float, 1-byte string, bool, or
// missing from the row.
func verifOrdVal(name string, fam int) (any, bool) {
	// one value family per column (as after a GROUP BY / aggregate): the value or missing
	k := 1
	if zzverif.Choose(name+".present", 2) == 1 {
		k = fam
	}
	switch k {
	case 0:
		return int(int8(zzverif.NondetU64(name+".i", 8))), true
	case 1:
		return nil, false // missing
	case 2:
		return float64(int8(zzverif.NondetU64(name+".h", 8))) / 2, true
	case 3:
		return zzverif.NondetBytes(name+".s", 1), true
	case 4:
		return zzverif.NondetBool(name + ".b"), true
	}
	panic("kind")
}

// verifOrdCmp: the documented comparator: missing first; numbers numerically; bool false<true;
// strings bytewise. Values of different families within one column are outside the claim.
func verifOrdCmp(a any, aok bool, b any, bok bool) (int64, bool) {
	if !aok || !bok {
		if !aok && !bok {
			return 0, true
		}
		if !aok {
			return -1, true
		}
		return 1, true
	}
	num := func(v any) (float64, bool) {
		switch x := v.(type) {
		case int:
			return float64(x), true
		case float64:
			return x, true
		}
		return 0, false
	}
	if x, ok := num(a); ok {
		if y, ok2 := num(b); ok2 {
			return zzverif.IteInt(x < y, -1, zzverif.IteInt(x > y, 1, 0)), true
		}
		return 0, false
	}
	switch x := a.(type) {
	case string:
		if y, ok := b.(string); ok {
			return zzverif.IteInt(x < y, -1, zzverif.IteInt(x > y, 1, 0)), true
		}
	case bool:
		if y, ok := b.(bool); ok {
			return zzverif.IteInt(x == y, 0, zzverif.IteInt(!x, -1, 1)), true
		}
	}
	return 0, false
}

// VerifC07Sort: ORDER BY k1 [, k2] with ASC/DESC followed by LIMIT n on a batch of result rows, through
// the real Sorter (sort.SliceStable with the real less) and the LIMIT cut.
func VerifC07Sort() {
	m := zzverif.Param("rows", 3)
	nkeys := zzverif.Param("keys", 1)
	fams := []int{zzverif.Param("fam0", 0), zzverif.Param("fam1", 0)}
	limit := verifPickS("limit", m+2) // 0 = no limit
	names := []string{"k0", "k1"}
	keys := make([]types.OrderByField, nkeys)
	for i := range keys {
		dir := types.SortAsc
		if verifPickS("desc"+names[i], 2) == 1 {
			dir = types.SortDesc
		}
		keys[i] = types.OrderByField{Expression: names[i], Direction: dir}
	}
	rows := make([]map[string]any, m)
	vals := make([][]any, m)
	oks := make([][]bool, m)
	for r := 0; r < m; r++ {
		rows[r] = map[string]any{"id": r}
		vals[r] = make([]any, nkeys)
		oks[r] = make([]bool, nkeys)
		for k := 0; k < nkeys; k++ {
			v, ok := verifOrdVal(names[k]+"r", fams[k])
			if ok {
				rows[r][names[k]] = v
			}
			vals[r][k], oks[r][k] = v, ok
		}
	}
	s := &Stream{}
	s.config.OrderBy = keys
	s.config.Limit = limit
	out := append([]map[string]any(nil), rows...)
	s.applyOrderBy(out)
	if s.config.Limit > 0 && len(out) > s.config.Limit { // the LIMIT step of processAggregationResults
		out = out[:s.config.Limit]
	}
	wantLen := m
	if limit > 0 && limit < m {
		wantLen = limit
	}
	zzverif.Assert(len(out) == wantLen, "limit-keeps-first-n")
	// rowCmp: comparison of two input rows under the key list (0 = tie); defined=false if some column
	// mixes value families
	rowCmp := func(i, j int) (int64, bool) {
		c := int64(0)
		defined := true
		for k := nkeys - 1; k >= 0; k-- {
			ck, ok := verifOrdCmp(vals[i][k], oks[i][k], vals[j][k], oks[j][k])
			if !ok {
				defined = false
			}
			if keys[k].Direction == types.SortDesc {
				ck = -ck
			}
			c = zzverif.IteInt(ck != 0, ck, c)
		}
		return c, defined
	}
	seen := make([]bool, m)
	ids := make([]int, len(out))
	for p, r := range out {
		id := r["id"].(int)
		zzverif.Assert(!seen[id], "output-is-a-selection-of-distinct-input-rows")
		seen[id] = true
		ids[p] = id
	}
	for p := 0; p+1 < len(ids); p++ {
		c, ok := rowCmp(ids[p], ids[p+1])
		if !ok {
			return
		}
		// sorted; ties keep their input order (stable)
		zzverif.Assert(c <= 0, "rows-sorted-by-key-list")
		if ids[p] > ids[p+1] {
			zzverif.Assert(c < 0, "ties-keep-input-order")
		}
	}
	// every dropped row sorts after (or ties with, and came later than) every kept row
	for id := 0; id < m; id++ {
		if seen[id] {
			continue
		}
		for _, kept := range ids {
			c, ok := rowCmp(kept, id)
			if !ok {
				return
			}
			zzverif.Assert(zzverif.Or(c < 0, zzverif.And(c == 0, kept < id)), "limit-keeps-the-first-rows-of-the-order")
		}
	}
}

// VerifC07Pipeline: the whole post-aggregation tail (DataProcessor.processAggregationResults: DISTINCT
// -> HAVING -> hidden-column strip -> ORDER BY -> LIMIT -> delivery) on a batch of result rows. The
// delivered batch is the rows of the batch that are distinct and satisfy HAVING, in ORDER BY order,
// cut to LIMIT: min(LIMIT, survivors) rows - whatever DISTINCT and LIMIT do to each other.
// (With DISTINCT the counts are enumerated, not symbolic: DISTINCT keys rows by encoding/json.Marshal,
// which is executed natively and needs concrete values; without DISTINCT they are symbolic.)
func VerifC07Pipeline() {
	m := zzverif.Param("rows", 3)
	distinct := zzverif.Param("distinct", 1) == 1
	having := zzverif.Param("having", 1) == 1
	order := zzverif.Param("order", 0) == 1
	limit := zzverif.Choose("limit", m+1) // 0 = none
	s := &Stream{log: logger.NewDiscardLogger(), mOutput: metrics.NewCounter("output"), resultChan: make(chan []map[string]any, 4)}
	s.config.Distinct = distinct
	if having {
		s.config.Having = "c > 1"
	}
	if order {
		s.config.OrderBy = []types.OrderByField{{Expression: "c", Direction: types.SortDesc}}
	}
	s.config.Limit = limit
	type rv struct {
		g string
		c int
	}
	in := make([]rv, m)
	rows := make([]map[string]any, m)
	for i := range rows {
		cv := 0
		if distinct {
			cv = zzverif.Choose("c", 4)
		} else {
			cv = int(zzverif.NondetU64("c", 3)) // symbolic when no JSON key is needed
		}
		in[i] = rv{[]string{"a", "b"}[zzverif.Choose("g", 2)], cv}
		rows[i] = map[string]any{"g": in[i].g, "c": in[i].c}
	}
	// reference
	var want []rv
	for i, r := range in {
		dup := false
		if distinct {
			for j := 0; j < i; j++ {
				if in[j] == r {
					dup = true
				}
			}
		}
		if dup || having && !(r.c > 1) {
			continue
		}
		want = append(want, r)
	}
	if order { // stable, descending by c
		for i := 1; i < len(want); i++ {
			for j := i; j > 0 && want[j-1].c < want[j].c; j-- {
				want[j-1], want[j] = want[j], want[j-1]
			}
		}
	}
	if limit > 0 && len(want) > limit {
		want = want[:limit]
	}
	(&DataProcessor{stream: s}).processAggregationResults(rows)
	var got []map[string]any
	select {
	case got = <-s.resultChan:
	default:
	}
	zzverif.Observe("delivered", int64(len(got)))
	zzverif.Assert(len(got) == len(want), "batch-has-min-limit-survivors-rows")
	if len(got) != len(want) {
		return
	}
	for i, w := range want {
		g, _ := got[i]["g"].(string)
		c, ok := got[i]["c"].(int)
		zzverif.Assert(ok && g == w.g && c == w.c, "batch-is-distinct-having-order-limit-of-the-input")
	}
}
