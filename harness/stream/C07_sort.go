//go:build verif

package stream

import (
	"github.com/rulego/streamsql/internal/zzverif"
	"github.com/rulego/streamsql/types"
)

// verifOrdVal: an ORDER BY key value: 8-bit integer, half-integer float, 1-byte string, bool, or
// missing from the row.
func verifOrdVal(name string, fam int) (any, bool) {
	// one value family per column (as after a GROUP BY / aggregate): the value or missing
	k := 1
	if zzverif.Choose(name+".present", 2) == 1 {
		k = fam
	}
	switch k {
	case 0:
		return int(int8(zzverif.NondetU64(name+".i", 8))), true
	case 1:
		return nil, false // missing
	case 2:
		return float64(int8(zzverif.NondetU64(name+".h", 8))) / 2, true
	case 3:
		return zzverif.NondetBytes(name+".s", 1), true
	case 4:
		return zzverif.NondetBool(name + ".b"), true
	}
	panic("kind")
}

// verifOrdCmp: the documented comparator: missing first; numbers numerically; bool false<true;
// strings bytewise. Values of different families within one column are outside the claim.
func verifOrdCmp(a any, aok bool, b any, bok bool) (int64, bool) {
	if !aok || !bok {
		if !aok && !bok {
			return 0, true
		}
		if !aok {
			return -1, true
		}
		return 1, true
	}
	num := func(v any) (float64, bool) {
		switch x := v.(type) {
		case int:
			return float64(x), true
		case float64:
			return x, true
		}
		return 0, false
	}
	if x, ok := num(a); ok {
		if y, ok2 := num(b); ok2 {
			return zzverif.IteInt(x < y, -1, zzverif.IteInt(x > y, 1, 0)), true
		}
		return 0, false
	}
	switch x := a.(type) {
	case string:
		if y, ok := b.(string); ok {
			return zzverif.IteInt(x < y, -1, zzverif.IteInt(x > y, 1, 0)), true
		}
	case bool:
		if y, ok := b.(bool); ok {
			return zzverif.IteInt(x == y, 0, zzverif.IteInt(!x, -1, 1)), true
		}
	}
	return 0, false
}

// VerifC07Sort: ORDER BY k1 [, k2] with ASC/DESC followed by LIMIT n on a batch of result rows, through
// the real Sorter (sort.SliceStable with the real less) and the LIMIT cut.
func VerifC07Sort() {
	m := zzverif.Param("rows", 3)
	nkeys := zzverif.Param("keys", 1)
	fams := []int{zzverif.Param("fam0", 0), zzverif.Param("fam1", 0)}
	limit := verifPickS("limit", m+2) // 0 = no limit
	names := []string{"k0", "k1"}
	keys := make([]types.OrderByField, nkeys)
	for i := range keys {
		dir := types.SortAsc
		if verifPickS("desc"+names[i], 2) == 1 {
			dir = types.SortDesc
		}
		keys[i] = types.OrderByField{Expression: names[i], Direction: dir}
	}
	rows := make([]map[string]any, m)
	vals := make([][]any, m)
	oks := make([][]bool, m)
	for r := 0; r < m; r++ {
		rows[r] = map[string]any{"id": r}
		vals[r] = make([]any, nkeys)
		oks[r] = make([]bool, nkeys)
		for k := 0; k < nkeys; k++ {
			v, ok := verifOrdVal(names[k]+"r", fams[k])
			if ok {
				rows[r][names[k]] = v
			}
			vals[r][k], oks[r][k] = v, ok
		}
	}
	s := &Stream{}
	s.config.OrderBy = keys
	s.config.Limit = limit
	out := append([]map[string]any(nil), rows...)
	s.applyOrderBy(out)
	if s.config.Limit > 0 && len(out) > s.config.Limit { // the LIMIT step of processAggregationResults
		out = out[:s.config.Limit]
	}
	wantLen := m
	if limit > 0 && limit < m {
		wantLen = limit
	}
	zzverif.Assert(len(out) == wantLen, "limit-keeps-first-n")
	// rowCmp: comparison of two input rows under the key list (0 = tie); defined=false if some column
	// mixes value families
	rowCmp := func(i, j int) (int64, bool) {
		c := int64(0)
		defined := true
		for k := nkeys - 1; k >= 0; k-- {
			ck, ok := verifOrdCmp(vals[i][k], oks[i][k], vals[j][k], oks[j][k])
			if !ok {
				defined = false
			}
			if keys[k].Direction == types.SortDesc {
				ck = -ck
			}
			c = zzverif.IteInt(ck != 0, ck, c)
		}
		return c, defined
	}
	seen := make([]bool, m)
	ids := make([]int, len(out))
	for p, r := range out {
		id := r["id"].(int)
		zzverif.Assert(!seen[id], "output-is-a-selection-of-distinct-input-rows")
		seen[id] = true
		ids[p] = id
	}
	for p := 0; p+1 < len(ids); p++ {
		c, ok := rowCmp(ids[p], ids[p+1])
		if !ok {
			return
		}
		// sorted; ties keep their input order (stable)
		zzverif.Assert(c <= 0, "rows-sorted-by-key-list")
		if ids[p] > ids[p+1] {
			zzverif.Assert(c < 0, "ties-keep-input-order")
		}
	}
	// every dropped row sorts after (or ties with, and came later than) every kept row
	for id := 0; id < m; id++ {
		if seen[id] {
			continue
		}
		for _, kept := range ids {
			c, ok := rowCmp(kept, id)
			if !ok {
				return
			}
			zzverif.Assert(zzverif.Or(c < 0, zzverif.And(c == 0, kept < id)), "limit-keeps-the-first-rows-of-the-order")
		}
	}
}
