//go:build verif

package stream

import (
	"container/list"

	"github.com/rulego/streamsql/condition"
	"github.com/rulego/streamsql/functions"
	"github.com/rulego/streamsql/internal/zzverif"
	"github.com/rulego/streamsql/logger"
	"github.com/rulego/streamsql/types"
)

func verifFieldEngine(af types.AnalyticField, cap int) *analyticFieldEngine {
	ctors, err := buildStateCtors(af)
	if err != nil {
		panic(err)
	}
	return &analyticFieldEngine{
		af:            af,
		stateCtors:    ctors,
		partitions:    make(map[string]*list.Element),
		lru:           list.New(),
		lastResults:   make(map[string]any),
		maxPartitions: cap,
	}
}

func verifRowVal(name string) (any, int) {
	switch k := zzverif.Choose(name+".kind", 3); k {
	case 0:
		return int(int8(zzverif.NondetU64(name+".i", 8))), k
	case 1:
		return nil, k
	default:
		return nil, 2 // missing
	}
}

func verifSameAnyS(got, want any) bool {
	if got == nil || want == nil {
		return got == nil && want == nil
	}
	switch w := want.(type) {
	case int:
		g, ok := got.(int)
		return ok && g == w
	case int64:
		g, ok := got.(int64)
		return ok && g == w
	case float64:
		g, ok := got.(float64)
		return ok && g == w
	case string:
		g, ok := got.(string)
		return ok && g == w
	case bool:
		g, ok := got.(bool)
		return ok && g == w
	}
	return false
}

// VerifC14Partitions: an analytic field with PARTITION BY evaluated by the real analyticFieldEngine
// (argument parsing, partition key, LRU state lookup) gives, for each row, the value that the
// function's own state machine gives when it is fed only the rows of that row's partition - whatever
// rows of other partitions are interleaved - while the number of partitions stays within the cap.
func VerifC14Partitions() {
	fnames := []string{"lag", "latest", "acc_sum", "acc_count", "had_changed"}
	exprs := []string{"lag(v, 1)", "latest(v)", "acc_sum(v)", "acc_count(v)", "had_changed(false, v)"}
	argl := [][]string{{"v", "1"}, {"v"}, {"v"}, {"v"}, {"false", "v"}}
	f := zzverif.Param("fn", 0)
	m := zzverif.Param("rows", 4)
	cap := zzverif.Param("cap", 10)
	nparts := zzverif.Param("parts", 2)
	af := types.AnalyticField{FuncName: fnames[f], Args: argl[f], Expression: exprs[f], Alias: "a", Over: &types.OverSpec{PartitionBy: []string{"p"}}}
	fe := verifFieldEngine(af, cap)
	s := &Stream{}
	fn, _ := functions.Get(fnames[f])
	refs := make([]functions.AnalyticState, nparts)
	for i := range refs {
		refs[i] = fn.(functions.StatefulAnalytic).NewState()
	}
	names := []string{"a", "b", "c"}
	for i := 0; i < m; i++ {
		p := zzverif.Choose("part", nparts)
		v, kind := verifRowVal("v")
		row := map[string]any{"p": names[p]}
		if kind != 2 {
			row["v"] = v
		}
		got := fe.evaluate(s, row)
		if nparts > cap {
			continue // above the cap only absence of panics is claimed
		}
		// reference: the same function's state machine over this partition's rows only; a missing
		// column is NULL
		var args []any
		switch f {
		case 0:
			args = []any{v, 1}
		case 4:
			args = []any{false, v}
		default:
			args = []any{v}
		}
		want := refs[p].Apply(args)
		zzverif.Assert(verifSameAnyS(got, want), "partitioned-analytic-equals-own-partition-sequence")
	}
}

// VerifC14PartitionKey: the partition key is injective on tuples of partition values (typed).
func VerifC14PartitionKey() {
	ncols := zzverif.Param("cols", 1)
	cols := []string{"p0", "p1"}[:ncols]
	fe := &analyticFieldEngine{af: types.AnalyticField{Over: &types.OverSpec{PartitionBy: cols}}}
	a, b := map[string]any{}, map[string]any{}
	equal := true
	for c := 0; c < ncols; c++ {
		var va, vb any
		ka := zzverif.Choose("ka", 4)
		kb := zzverif.Choose("kb", 4)
		mk := func(name string, k int) any {
			switch k {
			case 0:
				return zzverif.NondetString(name+".s", 2)
			case 1:
				// (symbolic integers would need the length of their decimal rendering: a few values)
				return []int{0, 7, 10, -1, 123456}[zzverif.Choose(name+".ival", 5)]
			case 2:
				return nil
			}
			return zzverif.NondetBool(name + ".b")
		}
		va, vb = mk(cols[c]+"a", ka), mk(cols[c]+"b", kb)
		if ka != 2 || zzverif.Choose("present", 2) == 1 {
			a[cols[c]] = va
		}
		b[cols[c]] = vb
		var ce bool
		switch {
		case ka != kb:
			ce = false
		case ka == 0:
			ce = va.(string) == vb.(string)
		case ka == 1:
			ce = va.(int) == vb.(int)
		case ka == 2:
			ce = true
		default:
			ce = va.(bool) == vb.(bool)
		}
		equal = zzverif.And(equal, ce)
	}
	ka, kb := fe.partitionKey(a), fe.partitionKey(b)
	zzverif.ObserveB("same", ka == kb)
	zzverif.Assert((ka == kb) == equal, "partition-key-merges-exactly-equal-tuples")
}

// VerifC14When: f(...) OVER (PARTITION BY p WHEN g > 0): a row that passes WHEN advances the state of
// its partition and yields the function's value; a row that fails WHEN leaves the state alone and
// yields the result of the most recent row of the same partition that passed (NULL if none) - also
// when that result was NULL after an earlier non-NULL one (changed_col returns NULL on a repeat).
func VerifC14When() {
	fnames := []string{"changed_col", "lag", "acc_sum"}
	exprs := []string{"changed_col(false, v)", "lag(v, 1)", "acc_sum(v)"}
	argl := [][]string{{"false", "v"}, {"v", "1"}, {"v"}}
	f := zzverif.Param("fn", 0)
	m := zzverif.Param("rows", 4)
	nparts := zzverif.Param("parts", 1)
	af := types.AnalyticField{FuncName: fnames[f], Args: argl[f], Expression: exprs[f], Alias: "a", Over: &types.OverSpec{PartitionBy: []string{"p"}, When: "g > 0"}}
	fe := verifFieldEngine(af, 10)
	cond, err := condition.NewExprCondition("g > 0")
	if err != nil {
		panic(err)
	}
	fe.whenCond = cond
	s := &Stream{}
	fn, _ := functions.Get(fnames[f])
	refs := make([]functions.AnalyticState, nparts)
	last := make([]any, nparts)
	for i := range refs {
		refs[i] = fn.(functions.StatefulAnalytic).NewState()
	}
	names := []string{"a", "b"}
	for i := 0; i < m; i++ {
		p := 0
		if nparts > 1 {
			p = zzverif.Choose("part", nparts)
		}
		// small value range so that repeats (changed_col -> NULL) are frequent
		v := int(zzverif.NondetU64("v", 1))
		g := int(zzverif.NondetU64("g", 1)) // 0 fails WHEN, 1 passes
		row := map[string]any{"p": names[p], "v": v, "g": g}
		got := fe.evaluate(s, row)
		if g > 0 {
			var args []any
			switch f {
			case 0:
				args = []any{false, v}
			case 1:
				args = []any{v, 1}
			default:
				args = []any{v}
			}
			last[p] = refs[p].Apply(args)
		}
		zzverif.Assert(verifSameAnyS(got, last[p]), "when-gated-analytic-equals-last-passing-result")
	}
}

// VerifC14Wrapper: an expression around an analytic call, v - lag(v) OVER (PARTITION BY k), on rows where
// v may be present, NULL or ABSENT, partitions interleaved: a row without a usable v yields NULL and never
// a value computed from another row's v. (Job option exprlang_error=1: the VM reports an evaluation
// error - which it does for a nil operand - so the repo's fallback evaluator computes the wrapper.)
func VerifC14Wrapper() {
	m := zzverif.Param("rows", 4)
	nparts := zzverif.Param("parts", 2)
	af := types.AnalyticField{FuncName: "lag", Args: []string{"v"}, Expression: "lag(v)", Alias: "d",
		Over:        &types.OverSpec{PartitionBy: []string{"k"}},
		WrapperExpr: "v - " + types.AnalyticSelfTokenN(0),
		Calls:       []types.AnalyticCall{{FuncName: "lag", BareCall: "lag(v)", Args: []string{"v"}}}}
	fe := verifFieldEngine(af, 10)
	s := &Stream{log: logger.NewDiscardLogger()}
	type hist struct {
		has bool // a previous row exists in the partition
		val any  // its v (nil when NULL/absent)
	}
	prev := make([]hist, nparts)
	names := []string{"A", "B"}
	for i := 0; i < m; i++ {
		p := zzverif.Choose("part", nparts)
		v, kind := verifRowVal("v")
		row := map[string]any{"k": names[p]}
		if kind != 2 {
			row["v"] = v
		}
		got := fe.evaluate(s, row)
		// definition: v - (previous row's v of the same partition); NULL if either is NULL/absent
		var want any
		if cur, ok := v.(int); ok && prev[p].has {
			if pv, ok2 := prev[p].val.(int); ok2 {
				want = float64(cur - pv)
			}
		}
		if want == nil {
			zzverif.Assert(got == nil, "wrapper-over-analytic-is-null-without-both-operands")
		} else {
			g, ok := got.(float64)
			zzverif.Assert(ok && g == want.(float64), "wrapper-over-analytic-equals-definition")
		}
		prev[p] = hist{true, v}
	}
}
