//go:build verif

package stream

import (
	"github.com/rulego/streamsql/internal/zzverif"
	"github.com/rulego/streamsql/logger"
	"github.com/rulego/streamsql/types"
)

type verifNV struct {
	null bool
	f    float64
}

func verifSelNum(row map[string]any, name string) verifNV {
	switch zzverif.Choose(name+".kind", 4) {
	case 0:
		i := int(int8(zzverif.NondetU64(name+".i", 4)<<4) >> 4)
		row[name] = i
		return verifNV{f: float64(i)}
	case 1:
		i := int(int8(zzverif.NondetU64(name+".i", 4)<<4) >> 4)
		f := float64(i) + 0.5
		row[name] = f
		return verifNV{f: f}
	case 2:
		row[name] = nil
		return verifNV{null: true}
	}
	return verifNV{null: true}
}

// VerifC06Select: a SELECT expression column on the real per-field path of the stream
// (compileExpressionInfo -> path selection by textual heuristics -> processExpressionField): whichever
// route the text is given (fast path, nested-field route, CASE with or without parentheses), the column
// value is the SQL value. Routes that end in the expr-lang VM are cut (outside the encoding).
func VerifC06Select() {
	form := zzverif.Param("form", 0)
	texts := []string{
		"a + b * c",
		"a - b - c",
		"CASE WHEN a > 2 THEN b ELSE c END",
		"CASE WHEN (a > 2) THEN b ELSE c END",
		"CASE WHEN a > 2 THEN (b + 1) * 2 ELSE c END",
		"CASE WHEN NOT (a > 2) THEN b ELSE c END",
		"CASE WHEN NOT a > 2 THEN b ELSE c END",
		"CASE WHEN a > 2 AND (b > 0 OR c > 0) THEN 1 ELSE 0 END",
		"case when abs(a) > 2 then b else c end",
		"a * 1.5 + b",
	}
	s := &Stream{log: logger.NewDiscardLogger(), compiledExprInfo: map[string]*expressionProcessInfo{}}
	s.config.FieldExpressions = map[string]types.FieldExpression{"r": {Field: "r", Expression: texts[form], Fields: []string{"a", "b", "c"}}}
	s.compileExpressionInfo()
	// expr-lang has no CASE: a CASE expression routed to the VM as a "function call" evaluates to NULL
	// for every row. It must be compiled by the hand-written parser and stay on its routes.
	if form >= 2 && form <= 8 {
		info := s.compiledExprInfo["r"]
		zzverif.Assert(info != nil && !info.isFunctionCall && info.compiledExpr != nil, "case-expression-is-routed-to-an-evaluator-that-implements-case")
	}
	row := map[string]any{}
	a := verifSelNum(row, "a")
	b := verifSelNum(row, "b")
	c := verifSelNum(row, "c")
	_, aHas := row["a"]
	_, bHas := row["b"]
	_, cHas := row["c"]
	gt := func(x verifNV, k float64) bool { return !x.null && x.f > k }
	pick := func(cond bool, x, y verifNV) verifNV {
		if cond {
			return x
		}
		return y
	}
	arith := func(x, y verifNV, op byte) verifNV {
		if x.null || y.null {
			return verifNV{null: true}
		}
		switch op {
		case '+':
			return verifNV{f: x.f + y.f}
		case '-':
			return verifNV{f: x.f - y.f}
		}
		return verifNV{f: x.f * y.f}
	}
	k := func(f float64) verifNV { return verifNV{f: f} }
	var want verifNV
	missingInCondition := false // open finding C06-case-missing-column
	switch form {
	case 0:
		want = arith(a, arith(b, c, '*'), '+')
	case 1:
		want = arith(arith(a, b, '-'), c, '-')
	case 2, 3:
		want = pick(gt(a, 2), b, c)
		missingInCondition = !aHas
	case 4:
		want = pick(gt(a, 2), arith(arith(b, k(1), '+'), k(2), '*'), c)
		missingInCondition = !aHas
	case 5, 6:
		// NOT over a NULL operand: three-valued logic is not stated by the property
		if a.null {
			return
		}
		want = pick(!gt(a, 2), b, c)
	case 7:
		want = pick(gt(a, 2) && (gt(b, 0) || gt(c, 0)), k(1), k(0))
		missingInCondition = !aHas || !bHas || !cHas
	case 8:
		// abs() of a NULL argument is outside this harness (function NULL handling: VerifC06Func)
		if a.null {
			return
		}
		abs := a.f
		if abs < 0 {
			abs = -abs
		}
		want = pick(abs > 2, b, c)
	default:
		want = arith(arith(a, k(1.5), '*'), b, '+')
	}
	result := map[string]any{}
	s.processExpressionField("r", row, result)
	got, present := result["r"]
	zzverif.ObserveB("null", got == nil)
	ok := present
	if want.null {
		ok = ok && got == nil
	} else {
		switch g := got.(type) {
		case float64:
			ok = ok && g == want.f
		case int:
			ok = ok && float64(g) == want.f
		default:
			ok = false
		}
	}
	zzverif.Cover("value-checked")
	zzverif.AssertKF(ok, "select-expression-value-is-independent-of-the-route", "C06-case-missing-column", missingInCondition)
}
