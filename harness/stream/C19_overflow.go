//go:build verif

package stream

import (
	"github.com/rulego/streamsql/internal/zzverif"
	"github.com/rulego/streamsql/logger"
	"github.com/rulego/streamsql/metrics"
)

func verifStreamForInput(capacity int) *Stream {
	s := &Stream{
		dataChan:      make(chan map[string]any, capacity),
		done:          make(chan struct{}),
		mInputDropped: metrics.NewCounter("input_dropped"),
		log:           logger.NewDiscardLogger(),
	}
	return s
}

// VerifC19Accounting: one ProcessData call of each overflow strategy on an input channel of capacity c
// filled to an arbitrary level, with an optional consumer that takes one row at an arbitrary moment
// while the producer waits: when the call returns, the row has been enqueued exactly once or
// input_dropped_count was incremented exactly once - never both, never neither, and never twice.
func VerifC19Accounting() {
	strat := verifPickS("strategy", 3) // 0 drop, 1 block (no timeout), 2 expand, (3 block with timeout)
	c := 1 + zzverif.Choose("cap", 2)
	fill := zzverif.Choose("fill", c+1)
	consumer := zzverif.Choose("consumer", 2) == 1
	s := verifStreamForInput(c)
	for i := 0; i < fill; i++ {
		s.dataChan <- map[string]any{"old": i}
	}
	var st DataProcessingStrategy
	switch strat {
	case 0:
		st = NewDropStrategy()
	case 1:
		st = NewBlockingStrategy()
	case 2:
		st = NewExpansionStrategy()
		s.config.PerformanceConfig.BufferConfig.MaxBufferSize = zzverif.Choose("max", 3) * 2 // 0 (no ceiling), 2, 4
		s.config.PerformanceConfig.OverflowConfig.ExpansionConfig.MinIncrement = 1
	}
	if err := st.Init(s, s.config.PerformanceConfig); err != nil {
		panic(err)
	}
	if strat == 1 && fill == c && !consumer {
		return // block without timeout and nobody consuming waits forever by design
	}
	takenNew := 0
	if consumer {
		ch := s.dataChan
		go func() {
			r := <-ch
			if _, isNew := r["new"]; isNew {
				takenNew++ // the consumer may take the new row itself: it then reached processing once
			}
		}()
	}
	row := map[string]any{"new": 1}
	st.ProcessData(row)
	zzverif.Quiesce()
	// count occurrences of the new row in the (possibly swapped) input channel
	occ := takenNew
	n := len(s.dataChan)
	for i := 0; i < n; i++ {
		r := <-s.dataChan
		if _, isNew := r["new"]; isNew {
			occ++
		}
	}
	dropped := s.mInputDropped.Value()
	zzverif.Observe("occ", int64(occ))
	zzverif.Observe("dropped", dropped)
	zzverif.Assert(occ <= 1, "row-enqueued-at-most-once")
	zzverif.Assert(dropped <= 1, "drop-counted-at-most-once")
	zzverif.Assert(int64(occ)+dropped == 1, "row-enqueued-once-or-counted-as-dropped")
	if strat == 1 {
		zzverif.Assert(dropped == 0, "block-without-timeout-never-drops")
	}
	if fill < c {
		zzverif.Assert(occ == 1, "row-enqueued-when-there-is-room")
	}
}

// VerifC19Expand: expandDataChannel from an arbitrary fill level and configuration: the new capacity
// never exceeds the configured maximum and never shrinks, the new channel holds exactly the old content
// in the same order, nothing is left behind in the old channel.
func VerifC19Expand() {
	c := 1 + zzverif.Choose("cap", 3)
	fill := zzverif.Choose("fill", c+1)
	s := verifStreamForInput(c)
	for i := 0; i < fill; i++ {
		s.dataChan <- map[string]any{"seq": i}
	}
	old := s.dataChan
	buf := &s.config.PerformanceConfig.BufferConfig
	exp := &s.config.PerformanceConfig.OverflowConfig.ExpansionConfig
	if zzverif.Param("symbolic_config", 0) == 1 {
		// arbitrary configuration values (bounded so that the new capacity stays small enough to
		// allocate a concrete channel): ceiling, increment, growth factor and threshold are solver
		// variables, NaN and negative factors included
		mx := zzverif.NondetInt("max")
		zzverif.Assume(mx >= 0 && mx <= 8)
		inc := zzverif.NondetInt("mininc")
		zzverif.Assume(inc >= -1 && inc <= 4 && inc != 0) // 0 means "default 1000"
		g := zzverif.NondetF64("growth")
		zzverif.Assume(!(g > 4)) // NaN, negative, tiny and up to 4x
		thr := zzverif.NondetF64("thr")
		buf.MaxBufferSize, exp.MinIncrement, exp.GrowthFactor, exp.TriggerThreshold = mx, inc, g, thr
		if inc < 0 {
			zzverif.Assume(mx >= 1) // default increment 1000 with no ceiling allocates a large channel
		}
	} else {
		buf.MaxBufferSize = zzverif.Choose("max", 7)  // 0 = unlimited
		exp.MinIncrement = zzverif.Choose("mininc", 3) // 0 = default 1000
		exp.GrowthFactor = []float64{0, 1.5, 2, 1.01}[zzverif.Choose("growth", 4)]
		exp.TriggerThreshold = []float64{0, 0.5, 1}[zzverif.Choose("thr", 3)]
	}
	s.expandDataChannel()
	nc := cap(s.dataChan)
	zzverif.Observe("newcap", int64(nc))
	zzverif.Assert(nc >= c, "capacity-never-shrinks")
	if buf.MaxBufferSize > 0 && c <= buf.MaxBufferSize {
		zzverif.Assert(nc <= buf.MaxBufferSize, "capacity-never-exceeds-configured-maximum")
	}
	if s.dataChan != old {
		zzverif.Cover("expanded")
		zzverif.Assert(nc > c, "swap-only-to-a-larger-channel")
		zzverif.Assert(len(old) == 0, "nothing-left-in-the-old-channel")
	}
	zzverif.Assert(len(s.dataChan) == fill, "all-rows-migrated")
	for i := 0; i < fill && len(s.dataChan) > 0; i++ {
		r := <-s.dataChan
		zzverif.Assert(r["seq"] == i, "migration-keeps-order")
	}
	zzverif.Assert(s.expanding == 0, "expanding-flag-cleared")
}

// VerifC19ExpandRace: expansion of the input channel while a consumer and a second producer are
// active, under every interleaving at lock-acquisition granularity (job param preempt_locks=1): the
// expanding producer, a consumer that takes one row, and a producer that sends one more row through
// the real safeSendToDataChan. Conservation: every row that was accepted (buffered before, or whose
// send returned true) is afterwards either consumed or in the CURRENT channel - nothing is stranded
// on the replaced channel - and FIFO order among the buffered rows is kept.
func VerifC19ExpandRace() {
	c := zzverif.Param("cap", 2)
	s := verifStreamForInput(c)
	for i := 0; i < c; i++ {
		s.dataChan <- map[string]any{"seq": i}
	}
	buf := &s.config.PerformanceConfig.BufferConfig
	exp := &s.config.PerformanceConfig.OverflowConfig.ExpansionConfig
	buf.MaxBufferSize = 0
	exp.MinIncrement = 1
	exp.GrowthFactor = 2
	exp.TriggerThreshold = 0.5
	var consumed []map[string]any
	sent := false
	doneC, doneP := false, false
	go func() { // consumer: reads the current channel reference under the read lock, takes one row
		s.dataChanMux.RLock()
		ch := s.dataChan
		s.dataChanMux.RUnlock()
		select {
		case r := <-ch:
			consumed = append(consumed, r)
		default:
		}
		doneC = true
	}()
	go func() { // second producer
		sent = s.safeSendToDataChan(map[string]any{"seq": 100})
		doneP = true
	}()
	s.expandDataChannel()
	zzverif.Quiesce()
	zzverif.Assert(doneC && doneP, "all-parties-finished")
	accepted := c
	if sent {
		accepted++
	}
	got := len(consumed)
	n := len(s.dataChan)
	var rest []map[string]any
	for i := 0; i < n; i++ {
		rest = append(rest, <-s.dataChan)
	}
	zzverif.Assert(got+n == accepted, "accepted-rows-are-consumed-or-in-the-current-channel")
	// FIFO among the originally buffered rows
	last := -1
	for _, r := range append(consumed, rest...) {
		if q, ok := r["seq"].(int); ok && q < 100 {
			zzverif.Assert(q > last, "buffered-rows-keep-their-order")
			last = q
		}
	}
}

// verifHookLogger runs a callback at every Debug line: expandDataChannel logs "Dynamic expansion ..."
// between its length snapshot (taken under the read lock) and the write lock under which it migrates,
// which makes that window a deterministic scheduling point - in the interpreter and in the native replay.
type verifHookLogger struct{ onDebug func(format string) }

func (l *verifHookLogger) Debug(format string, args ...any) {
	if l.onDebug != nil {
		l.onDebug(format)
	}
}
func (l *verifHookLogger) Info(format string, args ...any)  {}
func (l *verifHookLogger) Warn(format string, args ...any)  {}
func (l *verifHookLogger) Error(format string, args ...any) {}
func (l *verifHookLogger) SetLevel(level logger.Level)      {}

// VerifC19ExpandWindow: the schedules in which other parties act between the expanding producer's
// snapshot and its write lock: a consumer takes k0 rows before the expansion starts, then - inside the
// window - the consumer takes k1 more rows and another producer sends m rows through the real
// safeSendToDataChan (any k0, k1, m that fit). Afterwards every accepted row is consumed or in the
// current channel, in FIFO order; nothing stays on the replaced channel.
func VerifC19ExpandWindow() {
	c := zzverif.Param("cap", 3)
	s := verifStreamForInput(c)
	for i := 0; i < c; i++ {
		s.dataChan <- map[string]any{"seq": i}
	}
	buf := &s.config.PerformanceConfig.BufferConfig
	exp := &s.config.PerformanceConfig.OverflowConfig.ExpansionConfig
	buf.MaxBufferSize = 0
	exp.MinIncrement = 1
	exp.GrowthFactor = 2
	exp.TriggerThreshold = 0.3
	var consumed []map[string]any
	take := func(k int) {
		for i := 0; i < k; i++ {
			s.dataChanMux.RLock()
			ch := s.dataChan
			s.dataChanMux.RUnlock()
			select {
			case r := <-ch:
				consumed = append(consumed, r)
			default:
			}
		}
	}
	k0 := zzverif.Choose("k0", c)
	k1 := zzverif.Choose("k1", 2)
	m := zzverif.Choose("m", 3)
	accepted := c
	fired := false
	s.log = &verifHookLogger{onDebug: func(format string) {
		if fired || len(format) < 7 || format[:7] != "Dynamic" {
			return
		}
		fired = true
		take(k1)
		for i := 0; i < m; i++ {
			if s.safeSendToDataChan(map[string]any{"seq": 100 + i}) {
				accepted++
			}
		}
	}}
	take(k0)
	s.expandDataChannel()
	n := len(s.dataChan)
	var rest []map[string]any
	for i := 0; i < n; i++ {
		rest = append(rest, <-s.dataChan)
	}
	zzverif.Observe("in-current-channel", int64(n))
	zzverif.Assert(len(consumed)+n == accepted, "accepted-rows-are-consumed-or-in-the-current-channel")
	lastOld, lastNew := -1, 99
	for _, r := range append(consumed, rest...) {
		q, _ := r["seq"].(int)
		if q < 100 {
			zzverif.Assert(q > lastOld, "buffered-rows-keep-their-order")
			lastOld = q
		} else {
			zzverif.Assert(q > lastNew, "rows-of-one-producer-keep-their-order")
			lastNew = q
		}
	}
}
