//go:build verif

package stream

import (
	"github.com/rulego/streamsql/condition"
	"github.com/rulego/streamsql/functions"
	"github.com/rulego/streamsql/internal/zzverif"
	"github.com/rulego/streamsql/logger"
	"github.com/rulego/streamsql/metrics"
	"github.com/rulego/streamsql/types"
)

func verifDirectStream(fields []string, where string) *Stream {
	s := &Stream{
		log:     logger.NewDiscardLogger(),
		mOutput: metrics.NewCounter("output"),
		tables:  newTableStore(),
	}
	s.config.SimpleFields = fields
	s.compileFieldProcessInfo()
	if where != "" {
		c, err := condition.NewExprCondition(where)
		if err != nil {
			panic(err)
		}
		s.filter = c
	}
	return s
}

// verifCell: a column of the row: present with an 8-bit integer, a 1-byte string, NULL, or missing.
func verifCell(name string) (v any, present bool) {
	switch zzverif.Choose(name+".kind", 4) {
	case 0:
		return int(int8(zzverif.NondetU64(name+".i", 8))), true
	case 1:
		return zzverif.NondetBytes(name+".s", 1), true
	case 2:
		return nil, true
	}
	return nil, false
}

func verifSameCell(got, want any) bool {
	if got == nil || want == nil {
		return got == nil && want == nil
	}
	switch w := want.(type) {
	case int:
		g, ok := got.(int)
		return ok && g == w
	case string:
		g, ok := got.(string)
		return ok && g == w
	}
	return false
}

// VerifC05Direct: a non-aggregate query (SELECT a, b AS bb, n.x AS nx, 'lit' AS l  [WHERE a > 5]) on the
// real direct path (enrich -> where -> project, sync sink inline): the row yields a result iff the
// predicate holds; the result has exactly the selected columns; each equals its source or NULL when
// missing; the sync sink receives the same map; the result of a second row does not depend on the first;
// the caller's map is left as it was.
func VerifC05Direct() {
	star := zzverif.Param("star", 0) == 1
	withWhere := zzverif.Param("where", 0) == 1
	fields := []string{"a", "b:bb", "n.x:nx", "'lit':l"}
	if star {
		fields = []string{"*"}
	}
	where := ""
	if withWhere {
		where = "a > 5"
	}
	s := verifDirectStream(fields, where)
	var sunk []map[string]any
	s.syncSinks = append(s.syncSinks, func(rs []map[string]any) { sunk = append(sunk, rs...) })
	nrows := zzverif.Param("rows", 2)
	for r := 0; r < nrows; r++ {
		row := map[string]any{}
		av, aok := verifCell("a")
		bv, bok := verifCell("b")
		xv, xok := verifCell("x")
		nested := zzverif.Choose("nested", 2) == 1
		if aok {
			row["a"] = av
		}
		if bok {
			row["b"] = bv
		}
		var inner map[string]any
		if nested {
			inner = map[string]any{}
			if xok {
				inner["x"] = xv
			}
			row["n"] = inner
		}
		nkeys := len(row)
		nsunk := len(sunk)
		res, err := s.processDirectDataSync(row)
		zzverif.Assert(err == nil, "direct-no-error")
		// predicate: a > 5 is true only for a present integer above 5
		pass := true
		if withWhere {
			ai, isInt := av.(int)
			pass = aok && isInt && ai > 5
		}
		zzverif.ObserveB("emitted", res != nil)
		if !pass {
			zzverif.Cover("filtered")
			zzverif.Assert(res == nil && len(sunk) == nsunk, "row-filtered-iff-predicate-false")
		} else {
			zzverif.Cover("emitted")
			zzverif.Assert(res != nil, "row-emitted-iff-predicate-true")
			if res == nil {
				return
			}
			zzverif.Assert(len(sunk) == nsunk+1, "sync-sink-receives-one-result")
			if len(sunk) == nsunk+1 {
				same := len(sunk[nsunk]) == len(res)
				for k, v := range res {
					sv, ok := sunk[nsunk][k]
					if !ok || !(verifSameCell(sv, v) || k == "n") {
						same = false
					}
				}
				zzverif.Assert(same, "sync-sink-receives-the-returned-result")
			}
			if star {
				zzverif.Assert(len(res) == nkeys, "star-copies-all-fields")
				if aok {
					zzverif.Assert(verifSameCell(res["a"], av), "star-field-value")
				}
			} else {
				zzverif.Assert(len(res) == 4, "result-has-exactly-the-selected-columns")
				_, h1 := res["a"]
				_, h2 := res["bb"]
				_, h3 := res["nx"]
				_, h4 := res["l"]
				zzverif.Assert(h1 && h2 && h3 && h4, "result-columns-are-the-output-names")
				var wa, wb, wx any
				if aok {
					wa = av
				}
				if bok {
					wb = bv
				}
				if nested && xok {
					wx = xv
				}
				zzverif.Assert(verifSameCell(res["a"], wa), "column-equals-source-or-null")
				zzverif.Assert(verifSameCell(res["bb"], wb), "aliased-column-equals-source-or-null")
				zzverif.Assert(verifSameCell(res["nx"], wx), "nested-column-equals-source-or-null")
				zzverif.Assert(res["l"] == "lit", "literal-column")
			}
		}
		// the caller's row is untouched
		zzverif.Assert(len(row) == nkeys, "caller-row-keeps-its-keys")
		if aok {
			zzverif.Assert(verifSameCell(row["a"], av), "caller-row-keeps-its-values")
		}
		if nested {
			zzverif.Assert(len(inner) == map[bool]int{true: 1, false: 0}[xok], "caller-nested-map-untouched")
		}
	}
}

// VerifC20Analytic: a query with an analytic function in SELECT (lag(a) AS prev), evaluated through
// the synchronous path, must not write into the caller's map.
func VerifC20Analytic() {
	s := verifDirectStream([]string{"a"}, "")
	inWhere := zzverif.Param("in_where", 0) == 1
	af := types.AnalyticField{FuncName: "lag", Args: []string{"a", "1"}, Expression: "lag(a, 1)", Alias: "prev", Calls: []types.AnalyticCall{{FuncName: "lag", BareCall: "lag(a, 1)", Args: []string{"a", "1"}}}}
	if inWhere {
		s.config.WhereAnalyticCalls = []types.WhereAnalyticCall{{Placeholder: "__analytic_0__", FuncName: "lag", Args: []string{"a", "1"}, Expression: "lag(a, 1)"}}
	} else {
		s.config.AnalyticFields = []types.AnalyticField{af}
	}
	for r := 0; r < 2; r++ {
		row := map[string]any{}
		av, aok := verifCell("a")
		if aok {
			row["a"] = av
		}
		nkeys := len(row)
		res, err := s.processDirectDataSync(row)
		zzverif.Assert(err == nil, "analytic-no-error")
		zzverif.ObserveB("res", res != nil)
		zzverif.Assert(len(row) == nkeys, "caller-row-gains-no-keys")
		_, hasPrev := row["prev"]
		_, hasPh := row["__analytic_0__"]
		zzverif.Assert(!hasPrev && !hasPh, "analytic-result-not-written-into-caller-row")
		if aok {
			zzverif.Assert(verifSameCell(row["a"], av), "caller-row-keeps-its-values")
		}
	}
}

// VerifC05WhereChain: WHERE with a parenthesis-free chain mixing AND and OR (lowered text, as the SQL
// parser hands it over): the row is emitted iff the predicate is true under SQL precedence (AND binds
// tighter than OR). On the unchanged tree such a chain is declined by the predicate fast paths and
// evaluated by expr-lang (path cut: outside the encoding); if a fast path ever accepts it, its answer
// is held to the precedence-correct value here.
func VerifC05WhereChain() {
	form := zzverif.Param("form", 0)
	texts := []string{"a > 1 || b > 2 && c > 3", "a > 1 && b > 2 || c > 3", "a > 1 || b > 2 || c > 3", "a > 1 && b > 2 && c > 3", "a > 1 || b > 2 && c > 3 || a < 0"}
	s := verifDirectStream([]string{"a", "b", "c"}, texts[form])
	row := map[string]any{}
	num := func(name string) (int, bool) {
		if zzverif.Choose(name+".kind", 3) == 2 {
			return 0, false // absent
		}
		v := int(int8(zzverif.NondetU64(name+".i", 8)))
		row[name] = v
		return v, true
	}
	a, aok := num("a")
	b, bok := num("b")
	c, cok := num("c")
	res, err := s.processDirectDataSync(row)
	zzverif.Assert(err == nil, "direct-no-error")
	if !aok || !bok || !cok {
		return // comparisons with a missing column: NULL handling is checked by the fast-path harnesses (C12)
	}
	A, B, C := a > 1, b > 2, c > 3
	var want bool
	switch form {
	case 0:
		want = A || (B && C)
	case 1:
		want = (A && B) || C
	case 2:
		want = A || B || C
	case 3:
		want = A && B && C
	default:
		want = A || (B && C) || a < 0
	}
	zzverif.ObserveB("emitted", res != nil)
	zzverif.Assert((res != nil) == want, "row-emitted-iff-predicate-true")
}

// VerifC20Unnest: SELECT device, unnest(readings): the expansion step (real UnnestFunction.Execute +
// DataProcessor.expandUnnestResults) produces one row per array element carrying the other projected
// columns, and never writes into the caller's data - neither into the row nor into the objects nested
// in the caller's array (an element that is an object is expanded into columns of a NEW row).
func VerifC20Unnest() {
	n := zzverif.Param("elems", 2)
	s := &Stream{log: logger.NewDiscardLogger(), hasUnnestFunction: true}
	dp := &DataProcessor{stream: s}
	dev := int(int8(zzverif.NondetU64("dev", 8)))
	elems := make([]any, n)
	isObj := make([]bool, n)
	vals := make([]int, n)
	inner := make([]map[string]any, n)
	for i := range elems {
		vals[i] = int(int8(zzverif.NondetU64("v", 8)))
		if zzverif.Choose("obj", 2) == 1 {
			isObj[i] = true
			inner[i] = map[string]any{"k": "temp", "v": vals[i]}
			elems[i] = inner[i]
		} else {
			elems[i] = vals[i]
		}
	}
	row := map[string]any{"device": dev, "readings": elems}
	fn, ok := functions.Get("unnest")
	if !ok {
		panic("unnest not registered")
	}
	uv, err := fn.Execute(&functions.FunctionContext{Data: row}, []any{row["readings"]})
	zzverif.Assert(err == nil, "unnest-no-error")
	projected := map[string]any{"device": row["device"], "readings": uv}
	out := dp.expandUnnestResults(projected, row)
	zzverif.Assert(len(out) == n, "one-output-row-per-element")
	if len(out) == n {
		for i, r := range out {
			d, dok := r["device"].(int)
			zzverif.Assert(dok && d == dev, "expanded-row-carries-the-other-columns")
			if isObj[i] {
				v, vok := r["v"].(int)
				zzverif.Assert(vok && v == vals[i] && r["k"] == "temp", "object-element-expands-into-columns")
			} else {
				v, vok := r["readings"].(int)
				zzverif.Assert(vok && v == vals[i], "scalar-element-under-the-column-name")
			}
		}
	}
	// frame condition: the caller's row, array and nested objects are as they were
	zzverif.Assert(len(row) == 2, "caller-row-keeps-its-keys")
	arr, aok := row["readings"].([]any)
	zzverif.Assert(aok && len(arr) == n, "caller-array-untouched")
	for i := range elems {
		if isObj[i] {
			v, vok := inner[i]["v"].(int)
			zzverif.Assert(len(inner[i]) == 2 && vok && v == vals[i] && inner[i]["k"] == "temp", "caller-nested-object-untouched")
		}
	}
}
