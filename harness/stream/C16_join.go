//go:build verif

package stream

import (
	"github.com/rulego/streamsql/internal/zzverif"
	"github.com/rulego/streamsql/types"
)

const (
	jkInt = iota
	jkInt64
	jkUint64
	jkFloat64
	jkString
	jkNil
	jkBool
	jkInt32
	jkCount
)

func verifPickS(name string, n int) int {
	if p := zzverif.Param(name, -1); p >= 0 {
		return p
	}
	return zzverif.Choose(name, n)
}

// verifKeyVal: a join-key component of the given kind with an arbitrary payload.
func verifKeyVal(name string, kind int, slen int) any {
	switch kind {
	case jkInt:
		return int(zzverif.NondetInt64(name + ".i"))
	case jkInt64:
		return zzverif.NondetInt64(name + ".i")
	case jkUint64:
		return zzverif.NondetU64(name+".u", 64)
	case jkFloat64:
		return zzverif.NondetF64(name + ".f")
	case jkString:
		return zzverif.NondetString(name+".s", slen)
	case jkBool:
		return zzverif.NondetBool(name + ".b")
	case jkInt32:
		return int32(zzverif.NondetU64(name+".i32", 32))
	}
	return nil
}

// verifNumEq: exact numeric equality across Go number types (the property: "numerically for numbers").
func verifNumEq(a, b any) (eq bool, bothNum bool) {
	switch x := a.(type) {
	case int:
		return verifNumEq(int64(x), b)
	case int32:
		return verifNumEq(int64(x), b)
	case int64:
		switch y := b.(type) {
		case int:
			return x == int64(y), true
		case int32:
			return x == int64(y), true
		case int64:
			return x == y, true
		case uint64:
			return zzverif.And(x >= 0, uint64(x) == y), true
		case float64:
			return verifIntFloatEq(x, y), true
		}
	case uint64:
		switch y := b.(type) {
		case int, int32, int64:
			return verifNumEq(b, a)
		case uint64:
			return x == y, true
		case float64:
			return verifUintFloatEq(x, y), true
		}
	case float64:
		switch y := b.(type) {
		case int, int32, int64, uint64:
			return verifNumEq(b, a)
		case float64:
			return x == y, true // NaN never equals; -0 == +0
		}
	}
	return false, false
}

func verifIntFloatEq(x int64, f float64) bool {
	// f denotes exactly the integer x
	inRange := zzverif.And(f >= -9223372036854775808.0, f < 9223372036854775808.0)
	return zzverif.And(inRange, zzverif.And(float64(x) == f, int64(f) == x))
}

func verifUintFloatEq(x uint64, f float64) bool {
	inRange := zzverif.And(f >= 0, f < 18446744073709551616.0)
	return zzverif.And(inRange, zzverif.And(float64(x) == f, uint64(f) == x))
}

// verifCompEq: do two key components match? undecided=true when the property leaves it open
// (NULL against NULL, NaN against NaN).
func verifCompEq(a, b any) (eq bool, undecided bool) {
	if a == nil || b == nil {
		if a == nil && b == nil {
			return false, true
		}
		return false, false
	}
	if e, ok := verifNumEq(a, b); ok {
		fa, isFa := a.(float64)
		fb, isFb := b.(float64)
		if isFa && isFb && fa != fa && fb != fb {
			return false, true
		}
		return e, false
	}
	switch x := a.(type) {
	case string:
		if y, ok := b.(string); ok {
			return x == y, false
		}
	case bool:
		if y, ok := b.(bool); ok {
			return x == y, false
		}
	}
	return false, false
}

// VerifC16Key: encodeKey is injective exactly up to the property's key equality, for single and
// composite keys. Parameters ka*/kb* select the component kinds (or fork over all kinds).
func VerifC16Key() {
	arity := zzverif.Param("arity", 1)
	slen := zzverif.Param("slen", 2)
	a := make([]any, arity)
	b := make([]any, arity)
	want := true
	undecided := false
	names := []string{"0", "1", "2"}
	for i := 0; i < arity; i++ {
		ka := verifPickS("ka"+names[i], jkCount)
		kb := verifPickS("kb"+names[i], jkCount)
		a[i] = verifKeyVal("a"+names[i], ka, slen)
		b[i] = verifKeyVal("b"+names[i], kb, slen)
		e, u := verifCompEq(a[i], b[i])
		want = zzverif.And(want, e)
		undecided = zzverif.Or(undecided, u)
	}
	var ea, eb string
	if arity == 1 && zzverif.Choose("bare", 2) == 1 {
		ea, eb = encodeKey(a[0]), encodeKey(b[0]) // single-key tables may pass the bare value
	} else {
		ea, eb = encodeKey(a), encodeKey(b)
	}
	same := ea == eb
	zzverif.ObserveB("same", same)
	if same {
		zzverif.Cover("keys-collide")
	} else {
		zzverif.Cover("keys-differ")
	}
	zzverif.Assert(zzverif.Or(undecided, same == want), "key-encoding-matches-iff-equal")
}

// VerifC16Table: a sequence of Upsert/Delete/Lookup operations on a MemoryTableSource whose keys may
// use different Go number types for the same value behaves as a last-write-wins map over key tuples
// (compared by the property's equality): every lookup - also one made before a later update - sees
// exactly the operations that returned before it, and enrichJoin attaches / drops / NULL-pads
// accordingly without touching the caller's row.
func VerifC16Table() {
	nops := zzverif.Param("ops", 2)
	kindA := verifPickS("kind", jkCount)
	kindB := zzverif.Param("kind2", kindA) // a second key type used by some operations (1 vs 1.0 vs uint(1))
	slen := zzverif.Param("slen", 1)
	tbl := NewMemoryTableSource("t", []string{"id"}, nil)
	type refEntry struct {
		key  any
		row  map[string]any
		live bool
	}
	var ref []refEntry
	s := &Stream{tables: newTableStore()}
	if err := s.tables.register(tbl); err != nil {
		panic(err)
	}
	pickKind := func() int {
		if kindB != kindA && zzverif.Choose("usekind2", 2) == 1 {
			return kindB
		}
		return kindA
	}
	lookup := func(probe any, left bool, tag string) {
		var wantRow map[string]any
		wantHit := false
		for i := len(ref) - 1; i >= 0; i-- {
			e, u := verifCompEq(ref[i].key, probe)
			if u {
				return // NULL = NULL / NaN = NaN: left open
			}
			if e {
				wantHit = ref[i].live
				wantRow = ref[i].row
				break
			}
		}
		jt := "INNER"
		if left {
			jt = "LEFT"
		}
		s.config.JoinConfigs = []types.JoinConfig{{Table: "t", Alias: "d", JoinType: jt, OnPairs: []types.JoinOnPair{{StreamField: "dev", TableField: "id"}}}}
		data := map[string]any{"dev": probe, "v": 1}
		working, keep, err := s.enrichJoin(data)
		zzverif.Assert(err == nil, "join-no-error")
		zzverif.ObserveB("keep"+tag, keep)
		if wantHit {
			zzverif.Cover("join-hit")
			zzverif.Assert(keep, "join-match-kept")
			if keep {
				got, ok := working["d"].(map[string]any)
				zzverif.Assert(ok, "join-attaches-row")
				if ok {
					zzverif.Assert(got["n"] == wantRow["n"], "join-attaches-latest-row")
				}
			}
		} else {
			zzverif.Cover("join-miss")
			zzverif.Assert(keep == left, "join-miss-inner-drops-left-keeps")
			if keep {
				_, present := working["d"]
				zzverif.Assert(present, "join-left-miss-has-alias")
				m, isMap := working["d"].(map[string]any)
				zzverif.Assert(isMap && len(m) == 0, "join-left-miss-null-columns")
			}
		}
		_, hasD := data["d"]
		zzverif.Assert(len(data) == 2 && !hasD, "join-does-not-mutate-input")
	}
	for i := 0; i < nops; i++ {
		k := verifKeyVal("k", pickKind(), slen)
		if k == nil {
			k = zzverif.NondetInt64("k.i") // table rows always carry a key value
		}
		switch zzverif.Choose("op", 3) {
		case 0:
			row := map[string]any{"id": k, "n": i}
			tbl.Upsert(row)
			ref = append(ref, refEntry{k, row, true})
		case 1:
			tbl.Delete([]any{k})
			ref = append(ref, refEntry{k, nil, false})
		case 2:
			lookup(k, false, "mid") // a row processed between updates
		}
	}
	lookup(verifKeyVal("probe", pickKind(), slen), zzverif.Choose("left", 2) == 1, "end")
}
