//go:build verif

package rsql

import (
	"github.com/rulego/streamsql/internal/zzverif"
	"github.com/rulego/streamsql/types"
)

// VerifC11LexerTotal: for EVERY byte string of length n the lexer terminates without panic: each
// NextToken call either returns EOF or consumes at least one byte, so at most n+1 calls are needed;
// the position invariant (readPos = pos+1, ch = input[pos] or 0) is re-established after every token,
// and the text of identifier / number / operator tokens is the input slice at the token's position
// (what the clause parsers rely on when they re-slice the raw input).
func VerifC11LexerTotal() {
	n := zzverif.Param("n", 2)
	input := zzverif.NondetBytes("in", n)
	if sh := zzverif.Param("shard16", -1); sh >= 0 && n > 0 {
		// shard of the input space: first byte in [16*sh, 16*sh+15] (the 16 shards partition all inputs)
		zzverif.Assume(int(input[0])/16 == sh)
	}
	l := NewLexer(input)
	if zzverif.Param("with_recovery", 0) == 1 {
		l.SetErrorRecovery(NewErrorRecovery(nil))
	}
	prevPos := -1
	sawEOF := false
	for i := 0; i <= n+1; i++ {
		tok := l.NextToken()
		// representation invariant
		zzverif.Assert(l.readPos == l.pos+1 && l.pos <= len(input), "lexer-position-invariant")
		if l.pos < len(input) {
			zzverif.Assert(l.ch == input[l.pos], "lexer-current-byte-invariant")
		} else {
			zzverif.Assert(l.ch == 0, "lexer-current-byte-invariant-at-end")
		}
		if tok.Type == TokenEOF {
			sawEOF = true
			break
		}
		zzverif.Assert(tok.Pos > prevPos && tok.Pos < len(input), "token-position-advances")
		zzverif.Assert(l.pos > tok.Pos, "token-consumes-input")
		prevPos = tok.Pos
		switch tok.Type {
		case TokenString, TokenQuotedIdent:
		default:
			end := tok.Pos + len(tok.Value)
			zzverif.Assert(end <= len(input) && input[tok.Pos:end] == tok.Value, "token-text-is-input-slice")
		}
	}
	zzverif.Assert(sawEOF, "lexing-terminates-within-n-plus-1-tokens")
}

var verifKeywords = []string{"SELECT", "FROM", "WHERE", "GROUP", "BY", "AS", "OR", "AND", "LIMIT", "ORDER", "HAVING", "LIKE", "IS", "NULL", "NOT", "CASE", "WHEN", "THEN", "ELSE", "END", "OVER", "PARTITION", "DISTINCT", "WITH", "GLOBAL", "WINDOW", "TRIGGER"}

// VerifC11KeywordCase: every spelling of a keyword in any letter case is the same token; inside
// quotes / back-quotes it is never a keyword; whitespace of any kind and amount between two tokens
// does not change them.
func VerifC11KeywordCase() {
	kw := verifKeywords[zzverif.Param("kw", 0)]
	b := make([]byte, len(kw))
	for i := 0; i < len(kw); i++ {
		if zzverif.NondetBool("lower") {
			b[i] = kw[i] + 32
		} else {
			b[i] = kw[i]
		}
	}
	word := string(b)
	ref := NewLexer(kw).NextToken()
	// arbitrary whitespace before and after
	ws := []byte{' ', '\t', '\n', '\r'}
	pre := zzverif.Choose("pre", 3)
	lead := make([]byte, pre)
	for i := range lead {
		lead[i] = ws[zzverif.NondetU64("ws", 2)]
	}
	l := NewLexer(string(lead) + word + string(ws[zzverif.NondetU64("ws", 2)]) + "x")
	t1 := l.NextToken()
	t2 := l.NextToken()
	zzverif.Assert(t1.Type == ref.Type && t1.Type != TokenIdent, "keyword-is-case-insensitive")
	zzverif.Assert(t1.Value == word && t1.Pos == pre, "keyword-token-text-and-position")
	zzverif.Assert(t2.Type == TokenIdent && t2.Value == "x", "whitespace-does-not-change-next-token")
	// quoted: never a keyword
	for _, q := range []string{"'", "\"", "`"} {
		lq := NewLexer(q + word + q + " y")
		tq := lq.NextToken()
		zzverif.Assert(tq.Type == TokenString || tq.Type == TokenQuotedIdent, "quoted-keyword-is-not-a-keyword")
		ty := lq.NextToken()
		zzverif.Assert(ty.Type == TokenIdent && ty.Value == "y", "token-after-quoted-text")
	}
}

var verifStmts = []string{
	"SELECT a, b AS bb FROM s WHERE a > 1",
	"SELECT deviceId, avg(t) AS at FROM s GROUP BY deviceId, TumblingWindow('10s') HAVING avg(t) > 1 ORDER BY at DESC LIMIT 3",
	"SELECT * FROM s WHERE name LIKE 'a%' LIMIT 2",
	"SELECT count(*) AS n FROM s GROUP BY CountingWindow(3)",
	"SELECT DISTINCT a FROM s WHERE b IS NOT NULL AND c = 'x y'",
	"SELECT k, max(v) AS m FROM s GROUP BY k, SlidingWindow('10s', '5s') WITH (TIMESTAMP='ts', TIMEUNIT='ms')",
	"SELECT k, sum(v) AS t FROM s GROUP BY k, SessionWindow('5s')",
	"SELECT CASE WHEN a > 1 THEN 'hi' ELSE 'lo' END AS lvl FROM s",
	"SELECT CASE WHEN (a > 1) AND (b > 2) THEN 1 ELSE (a + 1) END AS lvl FROM s WHERE a > 0 AND (b > 1 OR c > 1)",
}

func verifSplit(s string) []string {
	// split at single spaces that are outside quotes
	var out []string
	cur := ""
	inq := byte(0)
	for i := 0; i < len(s); i++ {
		c := s[i]
		if inq != 0 {
			cur += string(c)
			if c == inq {
				inq = 0
			}
			continue
		}
		if c == '\'' || c == '"' {
			inq = c
		}
		if c == ' ' {
			out = append(out, cur)
			cur = ""
			continue
		}
		cur += string(c)
	}
	return append(out, cur)
}

// verifEqFold: equality up to ASCII letter case (a keyword written in another case inside a select
// expression, e.g. "case when ... end", is kept as written in the item text; the evaluators match
// keywords case-insensitively, so the item is the same item)
func verifEqFold(a, b string) bool {
	if len(a) != len(b) {
		return false
	}
	eq := true
	for i := 0; i < len(a); i++ {
		x, y := a[i], b[i]
		if x >= 'a' && x <= 'z' {
			x -= 32
		}
		if y >= 'a' && y <= 'z' {
			y -= 32
		}
		eq = zzverif.And(eq, x == y)
	}
	return eq
}

func verifSameConfig(got, canon *types.Config) { verifSameConfigFold(got, canon, false) }

func verifSameConfigFold(got, canon *types.Config, foldItems bool) {
	zzverif.Assert(len(got.SimpleFields) == len(canon.SimpleFields), "layout-keeps-select-items")
	if len(got.SimpleFields) == len(canon.SimpleFields) {
		for i := range canon.SimpleFields {
			if foldItems {
				zzverif.Assert(verifEqFold(got.SimpleFields[i], canon.SimpleFields[i]), "layout-keeps-select-item-text")
			} else {
				zzverif.Assert(got.SimpleFields[i] == canon.SimpleFields[i], "layout-keeps-select-item-text")
			}
		}
	}
	zzverif.Assert(got.Limit == canon.Limit && got.Distinct == canon.Distinct, "layout-keeps-limit-distinct")
	zzverif.Assert(got.WindowConfig.Type == canon.WindowConfig.Type && len(got.WindowConfig.Params) == len(canon.WindowConfig.Params), "layout-keeps-window-kind")
	zzverif.Assert(got.WindowConfig.TsProp == canon.WindowConfig.TsProp && got.WindowConfig.TimeUnit == canon.WindowConfig.TimeUnit, "layout-keeps-with-options")
	zzverif.Assert(len(got.GroupFields) == len(canon.GroupFields), "layout-keeps-group-keys")
	if len(got.GroupFields) == len(canon.GroupFields) {
		for i := range canon.GroupFields {
			zzverif.Assert(got.GroupFields[i] == canon.GroupFields[i], "layout-keeps-group-key-text")
		}
	}
	zzverif.Assert(len(got.OrderBy) == len(canon.OrderBy), "layout-keeps-order-keys")
	if len(got.OrderBy) == len(canon.OrderBy) {
		for i := range canon.OrderBy {
			zzverif.Assert(got.OrderBy[i] == canon.OrderBy[i], "layout-keeps-order-key")
		}
	}
	zzverif.Assert(len(got.SelectFields) == len(canon.SelectFields) && len(got.FieldAlias) == len(canon.FieldAlias), "layout-keeps-aggregates")
	zzverif.Assert(len(got.FieldExpressions) == len(canon.FieldExpressions), "layout-keeps-expressions")
}

// VerifC11ParseLayout: the whole real parser (rsql.Parse: lexer, clause parsers, raw-input re-lexing,
// AST -> Config) on concrete statements with ONE symbolic layout site: the gap between two tokens
// becomes 1-2 arbitrary whitespace bytes (space, tab, LF, CR). The resulting configuration and WHERE
// text must be those of the canonical single-space layout.
func VerifC11ParseLayout() {
	toks := verifSplit(verifStmts[zzverif.Param("stmt", 0)])
	site := zzverif.Param("site", 0) % (len(toks) - 1) // the gap after token `site`
	ws := []byte{' ', '\t', '\n', '\r'}
	n := 1 + zzverif.Choose("gap", 2)
	gap := make([]byte, n)
	for i := range gap {
		gap[i] = ws[zzverif.NondetU64("ws", 2)]
	}
	canonSQL, sql := "", ""
	for i, t := range toks {
		canonSQL += t
		sql += t
		if i+1 < len(toks) {
			canonSQL += " "
			if i == site {
				sql += string(gap)
			} else {
				sql += " "
			}
		}
	}
	canon, condC, errC := Parse(canonSQL)
	if errC != nil {
		panic("canonical statement does not parse: " + canonSQL + ": " + errC.Error())
	}
	got, cond, err := Parse(sql)
	zzverif.Assert(err == nil && got != nil, "layout-does-not-change-parse-success")
	if err != nil || got == nil {
		return
	}
	zzverif.Cover("parsed")
	verifSameConfig(got, canon)
	zzverif.Assert(cond == condC, "layout-keeps-where-text")
}

// VerifC11ParseCase: one keyword of the statement written in an arbitrary mix of letter cases.
func VerifC11ParseCase() {
	toks := verifSplit(verifStmts[zzverif.Param("stmt", 0)])
	// keyword tokens of this statement
	var kwIdx []int
	for i, t := range toks {
		for _, k := range verifKeywords {
			if t == k {
				kwIdx = append(kwIdx, i)
			}
		}
	}
	if len(kwIdx) == 0 {
		return
	}
	site := kwIdx[zzverif.Param("site", 0)%len(kwIdx)]
	b := []byte(toks[site])
	for i := range b {
		if zzverif.NondetBool("lower") {
			b[i] += 32
		}
	}
	canonSQL, sql := "", ""
	for i, t := range toks {
		if i > 0 {
			canonSQL += " "
			sql += " "
		}
		canonSQL += t
		if i == site {
			sql += string(b)
		} else {
			sql += t
		}
	}
	canon, condC, errC := Parse(canonSQL)
	if errC != nil {
		panic("canonical statement does not parse: " + canonSQL + ": " + errC.Error())
	}
	got, cond, err := Parse(sql)
	zzverif.Assert(err == nil && got != nil, "keyword-case-does-not-change-parse-success")
	if err != nil || got == nil {
		return
	}
	zzverif.Cover("parsed")
	verifSameConfigFold(got, canon, true) // only keyword tokens were re-cased
	zzverif.Assert(cond == condC, "keyword-case-keeps-where-text")
}

// VerifC11KeywordInLiteral: keyword-like text (any letter case) inside a string literal is data, not a
// clause: the configuration equals the one of the same statement with a neutral literal of the same
// length, except for the literal itself inside the WHERE text.
func VerifC11KeywordInLiteral() {
	kws := []string{"LIMIT", "ORDER", "WHERE", "GROUP", "FROM", "HAVING"}
	kw := kws[zzverif.Param("kw", 0)]
	b := []byte(kw)
	for i := range b {
		if zzverif.NondetBool("lower") {
			b[i] += 32
		}
	}
	neutral := "zzzzzzzz"[:len(kw)]
	shapes := []string{
		"SELECT a FROM s WHERE c = '%s 5'",
		"SELECT a, '%s BY a' AS note FROM s",
		"SELECT a FROM s WHERE c LIKE '%%%s%%' LIMIT 7",
	}
	shape := shapes[zzverif.Param("shape", 0)]
	mk := func(lit string) string {
		out := ""
		for i := 0; i < len(shape); i++ {
			if shape[i] == '%' && i+1 < len(shape) && shape[i+1] == 's' {
				out += lit
				i++
			} else if shape[i] == '%' && i+1 < len(shape) && shape[i+1] == '%' {
				out += "%"
				i++
			} else {
				out += string(shape[i])
			}
		}
		return out
	}
	canon, _, errC := Parse(mk(neutral))
	if errC != nil {
		panic("canonical statement does not parse: " + mk(neutral) + ": " + errC.Error())
	}
	got, cond, err := Parse(mk(string(b)))
	zzverif.Assert(err == nil && got != nil, "keyword-in-literal-does-not-break-parsing")
	if err != nil || got == nil {
		return
	}
	zzverif.Cover("parsed")
	zzverif.Assert(got.Limit == canon.Limit, "keyword-in-literal-is-not-a-limit-clause")
	zzverif.Assert(len(got.OrderBy) == len(canon.OrderBy) && len(got.GroupFields) == len(canon.GroupFields) && got.Having == canon.Having, "keyword-in-literal-is-not-a-clause")
	zzverif.Assert(len(got.SimpleFields) == len(canon.SimpleFields), "keyword-in-literal-keeps-select-items")
	_ = cond
}

var verifPrefixes = []string{
	"SELECT a FROM s JOIN t ON ",
	"SELECT a FROM s JOIN t ON a = ",
	"SELECT lag(a) OVER (PARTITION BY ",
	"SELECT a FROM s WHERE ",
	"SELECT a FROM s GROUP BY ",
	"SELECT a FROM s ORDER BY ",
	"SELECT a AS ",
	"SELECT ",
	"SELECT a FROM ",
	"SELECT * FROM s MATCH_RECOGNIZE (PARTITION BY ",
	"SELECT * FROM s MATCH_RECOGNIZE (ORDER BY ts MEASURES x AS ",
	"SELECT * FROM s MATCH_RECOGNIZE (ORDER BY ts PATTERN (",
	"SELECT * FROM s MATCH_RECOGNIZE (ORDER BY ts PATTERN (A B) DEFINE ",
	"SELECT * FROM s MATCH_RECOGNIZE (ORDER BY ts AFTER MATCH SKIP TO ",
	"SELECT * FROM s MATCH_RECOGNIZE (ORDER BY ts PATTERN (A B) SUBSET S = (",
	"SELECT a FROM s LIMIT ",
	"SELECT a FROM s WITH (",
	"SELECT a FROM s GROUP BY TumblingWindow(",
}

// VerifC11ParseTail: totality of the whole parser (rsql.Parse: every clause parser, the raw-input
// re-scans, AST -> Config) at the positions where clause parsers unquote or re-slice what follows: a
// concrete statement prefix ending inside a clause, followed by n ARBITRARY bytes (all 256^n tails at
// once). Parse returns an error or a configuration; a panic ends the path as a violation.
func VerifC11ParseTail() {
	prefix := verifPrefixes[zzverif.Param("prefix", 0)]
	n := zzverif.Param("n", 1)
	tail := zzverif.NondetBytes("tail", n)
	cfg, _, err := Parse(prefix + tail)
	zzverif.ObserveB("err", err != nil)
	zzverif.Assert(err != nil || cfg != nil, "parse-returns-error-or-config")
}

// VerifC11Clauses: the configuration reflects exactly the written clauses, for every combination of
// optional parts: ORDER BY with 1..3 keys each written bare, ASC or DESC (upper, lower or mixed case), LIMIT
// present or not, DISTINCT present or not, HAVING present or not (its text must end where ORDER BY begins), select items with and without alias in the written order.
// The oracle is the generator's own structure, not another parse.
func VerifC11Clauses() {
	nkeys := zzverif.Param("nkeys", 2)
	// the second column's name ends in an arbitrary lower-case letter or digit (solver-decided: no
	// spelling of the identifier may be taken for a keyword or change the clause structure)
	symid := zzverif.Param("symid", 0) == 1
	dev := "deviceId"
	distinct, withLimit, withAlias := false, true, false
	if symid {
		tailByte := zzverif.NondetBytes("idtail", 1)
		zzverif.Assume(tailByte[0] >= 'a' && tailByte[0] <= 'z' || tailByte[0] >= '0' && tailByte[0] <= '9' || tailByte[0] == '_')
		dev = "deviceI" + tailByte
	} else {
		distinct = zzverif.Choose("distinct", 2) == 1
		withLimit = zzverif.Choose("limit", 2) == 1
		withAlias = zzverif.Choose("alias", 2) == 1
	}
	keys := []string{"c", dev, "m"}
	sql := "SELECT "
	if distinct {
		sql += "DISTINCT "
	}
	if withAlias {
		sql += "c AS cc, " + dev + ", m AS mm"
	} else {
		sql += "c, " + dev + ", m"
	}
	sql += " FROM stream"
	withHaving := !symid && zzverif.Choose("having", 2) == 1
	if withHaving {
		sql += " HAVING c > 1"
	}
	sql += " ORDER BY "
	dirs := make([]int, nkeys)
	for i := 0; i < nkeys; i++ {
		if i > 0 {
			sql += ", "
		}
		sql += keys[i]
		nd := 5
		if symid {
			nd = 3
		}
		d := zzverif.Choose("dir", nd) // bare, ASC, DESC, asc, Desc
		dirs[i] = []int{0, 1, 2, 1, 2}[d]
		sql += []string{"", " ASC", " DESC", " asc", " Desc"}[d]
	}
	if withLimit {
		sql += " LIMIT 7"
	}
	cfg, _, err := Parse(sql)
	zzverif.Assert(err == nil && cfg != nil, "statement-parses")
	if err != nil || cfg == nil {
		return
	}
	zzverif.Assert(len(cfg.OrderBy) == nkeys, "order-by-has-the-written-keys")
	if len(cfg.OrderBy) == nkeys {
		for i := 0; i < nkeys; i++ {
			want := types.SortAsc
			if dirs[i] == 2 {
				want = types.SortDesc
			}
			zzverif.Assert(cfg.OrderBy[i].Expression == keys[i], "order-by-key-is-the-written-column")
			zzverif.Assert(cfg.OrderBy[i].Direction == want, "order-by-direction-is-the-written-one-default-asc")
		}
	}
	wantLimit := 0
	if withLimit {
		wantLimit = 7
	}
	zzverif.Assert(cfg.Limit == wantLimit, "limit-is-the-written-one")
	zzverif.Assert(cfg.Distinct == distinct, "distinct-is-the-written-one")
	wantHaving := ""
	if withHaving {
		wantHaving = "c > 1"
	}
	zzverif.Assert(cfg.Having == wantHaving, "having-text-is-the-written-predicate-only")
	zzverif.Assert(len(cfg.SimpleFields) == 3, "select-items-in-order")
	if len(cfg.SimpleFields) == 3 {
		wantF := []string{"c", dev, "m"}
		if withAlias {
			wantF = []string{"c:cc", dev, "m:mm"}
		}
		for i := range wantF {
			zzverif.Assert(cfg.SimpleFields[i] == wantF[i], "select-item-and-alias-as-written")
		}
	}
}
