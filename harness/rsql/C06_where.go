//go:build verif

package rsql

import "github.com/rulego/streamsql/internal/zzverif"

// VerifC06WhereLowering: the WHERE / HAVING text handed to the condition compiler. The condition is
// compiled by expr-lang, whose logical operators are && || ! and whose equality is ==; SQL's AND, OR,
// NOT and = must therefore be lowered (a bare NOT is an undefined function there and makes the filter
// false for every row), while the NOT of IS NOT NULL / NOT LIKE, which later rewrites recognise, and
// keyword-like text inside string literals stay as written. Keywords in any letter case.
func VerifC06WhereLowering() {
	form := zzverif.Param("form", 0)
	having := zzverif.Param("having", 0) == 1
	type tc struct{ toks []string; want string }
	cases := []tc{
		{[]string{"a", ">", "2", "AND", "b", "<", "3"}, "a > 2 && b < 3"},
		{[]string{"a", ">", "2", "OR", "b", "=", "3"}, "a > 2 || b == 3"},
		{[]string{"NOT", "(", "a", ">", "2", ")"}, "! ( a > 2 )"},
		{[]string{"a", "IS", "NOT", "NULL", "AND", "NOT", "(", "b", "=", "1", ")"}, "a IS NOT NULL && ! ( b == 1 )"},
		{[]string{"name", "NOT", "LIKE", "'x%'", "OR", "NOT", "(", "a", ">", "2", ")"}, "name NOT LIKE 'x%' || ! ( a > 2 )"},
		{[]string{"s", "=", "'NOT AND OR'", "AND", "a", "!=", "1"}, "s == 'NOT AND OR' && a != 1"},
		{[]string{"a", ">", "1", "AND", "NOT", "(", "b", ">", "1", "OR", "c", ">", "1", ")"}, "a > 1 && ! ( b > 1 || c > 1 )"},
	}
	c := cases[form]
	cond := ""
	for i, t := range c.toks {
		if i > 0 {
			cond += " "
		}
		switch t {
		case "AND", "OR", "NOT":
			b := []byte(t)
			for j := range b {
				if zzverif.NondetBool("lower") {
					b[j] += 32
				}
			}
			cond += string(b)
		default:
			cond += t
		}
	}
	var sql string
	if having {
		sql = "SELECT k, count(*) AS a FROM stream GROUP BY k, TumblingWindow('1s') HAVING " + cond
	} else {
		sql = "SELECT x FROM stream WHERE " + cond
	}
	stmt, err := NewParser(sql).Parse()
	zzverif.Assert(err == nil && stmt != nil, "statement-parses")
	if err != nil || stmt == nil {
		return
	}
	got := stmt.Condition
	if having {
		got = stmt.Having
	}
	zzverif.ObserveS("lowered", got)
	zzverif.Assert(got == c.want, "where-text-lowers-and-or-not-eq-to-the-condition-language")
}
