//go:build verif

package cep

import (
	"time"

	"github.com/rulego/streamsql/internal/zzverif"
	"github.com/rulego/streamsql/types"
)

func vLit(s string) *types.PatternNode { return &types.PatternNode{Kind: types.PatternLiteral, Symbol: s} }
func vSeq(c ...*types.PatternNode) *types.PatternNode {
	return &types.PatternNode{Kind: types.PatternSequence, Children: c}
}
func vAlt(c ...*types.PatternNode) *types.PatternNode {
	return &types.PatternNode{Kind: types.PatternAlternation, Children: c}
}
func vGrp(c *types.PatternNode) *types.PatternNode {
	return &types.PatternNode{Kind: types.PatternGroup, Children: []*types.PatternNode{c}}
}
func vRep(c *types.PatternNode, min, max int) *types.PatternNode {
	return &types.PatternNode{Kind: types.PatternRepetition, Children: []*types.PatternNode{c}, Quant: &types.Quantifier{Min: min, Max: max, Greedy: true}}
}

func vPerm(c ...*types.PatternNode) *types.PatternNode {
	return &types.PatternNode{Kind: types.PatternPermute, Children: c}
}

func verifPatterns() []*types.PatternNode {
	A, B, C := vLit("A"), vLit("B"), vLit("C")
	return []*types.PatternNode{
		vSeq(A, B),                      // A B
		vSeq(A, vRep(B, 1, -1)),         // A B+
		vSeq(vRep(A, 1, -1), B),         // A+ B
		vSeq(A, vRep(B, 0, 1), C),       // A B? C
		vSeq(A, vGrp(vAlt(B, C))),       // A (B|C)
		vRep(A, 2, 2),                   // A{2}
		vSeq(A, vRep(B, 0, -1)),         // A B*
		vRep(vGrp(vSeq(A, B)), 1, -1),   // (A B)+
		vSeq(A, vRep(B, 1, 2), C),       // A B{1,2} C
		vAlt(vSeq(A, B, C), B),          // A B C | B
		vSeq(A, vRep(vGrp(vSeq(B, C)), 0, -1)), // A (B C)*
		vSeq(vRep(A, 0, 1), B),          // A? B
		vSeq(vGrp(vAlt(A, B)), vRep(C, 1, -1)), // (A|B) C+
		vSeq(vRep(A, 1, 2), B),          // A{1,2} B
		vSeq(vRep(A, 1, -1), vRep(B, 1, -1)), // A+ B+
		vPerm(A, B),                          // PERMUTE(A, B)
		vSeq(vPerm(A, B), C),                 // PERMUTE(A, B) C
		vSeq(A, vPerm(B, C)),                 // A PERMUTE(B, C)
		vPerm(A, B, C),                       // PERMUTE(A, B, C)
		vRep(A, 1, 3),                        // A{1,3}
		vSeq(vRep(A, 1, 3), B),               // A{1,3} B
		vSeq(A, vRep(B, 0, 2), C),            // A B{0,2} C
		vSeq(vRep(A, 2, 4), B),               // A{2,4} B
	}
}

// verifEnds: the set of positions reachable by matching node n from the positions in `start`
// (bit-vectors over 0..k as []bool of solver terms; sat(sym,pos) = event pos satisfies DEFINE of sym).
func verifEnds(n *types.PatternNode, start []bool, k int, sat func(string, int) bool) []bool {
	out := make([]bool, k+1)
	switch n.Kind {
	case types.PatternLiteral:
		for j := 0; j < k; j++ {
			out[j+1] = zzverif.And(start[j], sat(n.Symbol, j))
		}
	case types.PatternSequence:
		cur := start
		for _, c := range n.Children {
			cur = verifEnds(c, cur, k, sat)
		}
		return cur
	case types.PatternAlternation:
		for _, c := range n.Children {
			e := verifEnds(c, start, k, sat)
			for j := range out {
				out[j] = zzverif.Or(out[j], e[j])
			}
		}
	case types.PatternGroup:
		return verifEnds(n.Children[0], start, k, sat)
	case types.PatternPermute:
		// every ordering of the children
		var rec func(cur []bool, used int)
		rec = func(cur []bool, used int) {
			if used == 1<<len(n.Children)-1 {
				for j := range out {
					out[j] = zzverif.Or(out[j], cur[j])
				}
				return
			}
			for i, c := range n.Children {
				if used&(1<<i) == 0 {
					rec(verifEnds(c, cur, k, sat), used|1<<i)
				}
			}
		}
		rec(start, 0)
	case types.PatternRepetition:
		cur := start
		if n.Quant.Min == 0 {
			copy(out, start)
		}
		for r := 1; r <= k; r++ {
			cur = verifEnds(n.Children[0], cur, k, sat)
			if r >= n.Quant.Min && (n.Quant.Max < 0 || r <= n.Quant.Max) {
				for j := range out {
					out[j] = zzverif.Or(out[j], cur[j])
				}
			}
		}
	}
	return out
}

// VerifC15Match: k events of one or two partitions, each satisfying an arbitrary subset of the DEFINE
// conditions of A, B, C (current-row conditions), pushed through the real Engine (Compile, Process, step,
// advance, greedy selection, SKIP PAST LAST ROW / SKIP TO NEXT ROW, Flush). The emitted matches must be
// exactly those of the declarative definition: per partition, starts taken leftmost-first subject to the
// skip rule, for each start the longest run of consecutive events spelling a word of the pattern,
// MATCH_NUMBER counting 1,2,3...
func VerifC15Match() {
	pi := zzverif.Param("pattern", 0)
	k := zzverif.Param("events", 4)
	nparts := zzverif.Param("parts", 1)
	skipNext := zzverif.Param("skip_next", 0) == 1
	spec := &types.MatchRecognizeSpec{
		OrderBy:      []types.OrderByField{{Expression: "ts"}},
		Pattern:      verifPatterns()[pi],
		RowsPerMatch: types.RowsPerMatchAll,
		Measures:     []types.Measure{{Expr: "MATCH_NUMBER()", Alias: "mn"}},
		Defines:      []types.MatchDefine{{Symbol: "A", Cond: "a == 1"}, {Symbol: "B", Cond: "b == 1"}, {Symbol: "C", Cond: "c == 1"}},
	}
	if skipNext {
		spec.Skip = types.SkipToNextRow
	}
	// WITHIN w (in the unit of the small ordinal timestamps; 0 = the default one hour, never reached)
	within := zzverif.Param("within", 0)
	if within > 0 {
		spec.Within = time.Duration(within)
	}
	eng, err := NewEngine(spec)
	if err != nil {
		panic(err)
	}
	type ev struct {
		a, b, c bool
		part    int
		ts      int64
	}
	evs := make([]ev, k)
	var out []map[string]any
	names := []string{"p", "q"}
	for i := 0; i < k; i++ {
		e := ev{a: zzverif.NondetBool("a"), b: zzverif.NondetBool("b"), c: zzverif.NondetBool("c")}
		if nparts > 1 {
			e.part = zzverif.Choose("part", nparts)
		}
		if within > 0 {
			// arbitrary non-decreasing timestamps: gaps of 0..3 units
			e.ts = int64(zzverif.NondetU64("gap", 2))
			if i > 0 {
				e.ts += evs[i-1].ts
			} else {
				e.ts++
			}
		} else {
			e.ts = int64(i + 1)
		}
		evs[i] = e
		row := map[string]any{"id": i, "ts": e.ts, "a": zzverif.B2I(e.a), "b": zzverif.B2I(e.b), "c": zzverif.B2I(e.c)}
		if zzverif.Param("absent", 0) == 1 {
			// a column that does not satisfy its DEFINE is ABSENT from the event instead of 0: a missing
			// column is NULL for DEFINE (never the value of an earlier event)
			row = map[string]any{"id": i, "ts": e.ts}
			if e.a {
				row["a"] = 1
			}
			if e.b {
				row["b"] = 1
			}
			if e.c {
				row["c"] = 1
			}
		}
		out = append(out, eng.Process(row, names[e.part])...)
	}
	out = append(out, eng.Flush()...)
	// group the emitted rows into matches per partition: a new match starts when mn changes
	type match struct{ ids []int }
	got := make([][]match, nparts)
	lastMn := make([]int, nparts)
	for _, r := range out {
		id, ok := r["id"].(int)
		zzverif.Assert(ok && id >= 0 && id < k, "emitted-row-is-an-input-row")
		if !ok || id < 0 || id >= k {
			return
		}
		p := evs[id].part
		mn, _ := r["mn"].(int)
		if mn != lastMn[p] {
			zzverif.Assert(mn == lastMn[p]+1, "match-number-counts-1-2-3-per-partition")
			got[p] = append(got[p], match{})
			lastMn[p] = mn
		}
		if len(got[p]) == 0 {
			zzverif.Assert(false, "match-number-starts-at-1")
			return
		}
		got[p][len(got[p])-1].ids = append(got[p][len(got[p])-1].ids, id)
	}
	for p := 0; p < nparts; p++ {
		// this partition's events in arrival order
		var idx []int
		for i := 0; i < k; i++ {
			if evs[i].part == p {
				idx = append(idx, i)
			}
		}
		n := len(idx)
		sat := func(sym string, pos int) bool {
			e := evs[idx[pos]]
			switch sym {
			case "A":
				return e.a
			case "B":
				return e.b
			}
			return e.c
		}
		var want [][]int
		s := 0
		for s < n {
			start := make([]bool, n+1)
			start[s] = true
			ends := verifEnds(spec.Pattern, start, n, sat)
			best := -1
			for j := n; j > s; j-- {
				if within > 0 && evs[idx[j-1]].ts-evs[idx[s]].ts > int64(within) {
					continue // does not fit in WITHIN
				}
				if ends[j] { // forks on the solver term
					best = j
					break
				}
			}
			if best < 0 {
				s++
				continue
			}
			m := make([]int, 0, best-s)
			for j := s; j < best; j++ {
				m = append(m, idx[j])
			}
			want = append(want, m)
			if skipNext {
				s++
			} else {
				s = best
			}
		}
		zzverif.Observe("matches", int64(len(got[p])))
		zzverif.Assert(len(got[p]) == len(want), "exactly-the-valid-matches-are-reported")
		if len(got[p]) != len(want) {
			return
		}
		for mi := range want {
			same := len(got[p][mi].ids) == len(want[mi])
			if same {
				for j := range want[mi] {
					if got[p][mi].ids[j] != want[mi][j] {
						same = false
					}
				}
			}
			zzverif.Assert(same, "match-is-the-longest-run-from-the-leftmost-start")
		}
	}
}

// VerifC15Nav: DEFINE conditions that navigate the match so far (PREV) or aggregate over it (SUM),
// ONE ROW PER MATCH with MEASURES FIRST/LAST/COUNT/SUM/MATCH_NUMBER evaluated on the run. One partition,
// k events whose value v ranges over [0,3]; ids are arrival positions.
//
//	shape 0: PATTERN (S U+)      U AS v > PREV(v)                     (rising run)
//	shape 1: PATTERN (S D+ U+)   D AS v < PREV(v), U AS v > PREV(v)   (V shape)
//	shape 2: PATTERN (S B*)      B AS SUM(B.v) <= 2                   (budgeted run; aggregate incl. candidate)
//	shape 3: PATTERN (S U* T)    U AS v > PREV(v), T AS v == 0        (rising run closed by a zero)
func VerifC15Nav() {
	shape := zzverif.Param("shape", 0)
	k := zzverif.Param("events", 4)
	skipNext := zzverif.Param("skip_next", 0) == 1
	S, U, D, B, T := vLit("S"), vLit("U"), vLit("D"), vLit("B"), vLit("T")
	var pat *types.PatternNode
	var defs []types.MatchDefine
	switch shape {
	case 0:
		pat = vSeq(S, vRep(U, 1, -1))
		defs = []types.MatchDefine{{Symbol: "U", Cond: "v > PREV(v)"}}
	case 1:
		pat = vSeq(S, vRep(D, 1, -1), vRep(U, 1, -1))
		defs = []types.MatchDefine{{Symbol: "D", Cond: "v < PREV(v)"}, {Symbol: "U", Cond: "v > PREV(v)"}}
	case 2:
		pat = vSeq(S, vRep(B, 0, -1))
		defs = []types.MatchDefine{{Symbol: "B", Cond: "SUM(B.v) <= 2"}}
	default:
		pat = vSeq(S, vRep(U, 0, -1), T)
		defs = []types.MatchDefine{{Symbol: "U", Cond: "v > PREV(v)"}, {Symbol: "T", Cond: "v == 0"}}
	}
	spec := &types.MatchRecognizeSpec{
		OrderBy:      []types.OrderByField{{Expression: "ts"}},
		Pattern:      pat,
		RowsPerMatch: types.RowsPerMatchOne,
		Measures: []types.Measure{{Expr: "FIRST(id)", Alias: "f"}, {Expr: "LAST(id)", Alias: "l"},
			{Expr: "COUNT(*)", Alias: "n"}, {Expr: "SUM(v)", Alias: "s"}, {Expr: "MATCH_NUMBER()", Alias: "mn"}},
		Defines: defs,
	}
	if skipNext {
		spec.Skip = types.SkipToNextRow
	}
	eng, err := NewEngine(spec)
	if err != nil {
		panic(err)
	}
	v := make([]int, k)
	var out []map[string]any
	for i := 0; i < k; i++ {
		v[i] = int(zzverif.NondetU64("v", 2))
		out = append(out, eng.Process(map[string]any{"id": i, "ts": int64(i + 1), "v": v[i]}, "p")...)
	}
	out = append(out, eng.Flush()...)

	type want struct{ f, l, s int }
	var wants []want
	s := 0
	for s < k {
		sat := func(sym string, pos int) bool {
			switch sym {
			case "S":
				return true
			case "U":
				return pos > 0 && v[pos] > v[pos-1]
			case "D":
				return pos > 0 && v[pos] < v[pos-1]
			case "T":
				return v[pos] == 0
			}
			// B: budget over the B rows s+1..pos
			sum := 0
			for j := s + 1; j <= pos; j++ {
				sum += v[j]
			}
			return sum <= 2
		}
		start := make([]bool, k+1)
		start[s] = true
		ends := verifEnds(pat, start, k, sat)
		best := -1
		for j := k; j > s; j-- {
			if ends[j] {
				best = j
				break
			}
		}
		if best < 0 {
			s++
			continue
		}
		sum := 0
		for j := s; j < best; j++ {
			sum += v[j]
		}
		wants = append(wants, want{s, best - 1, sum})
		if skipNext {
			s++
		} else {
			s = best
		}
	}
	zzverif.Observe("matches", int64(len(out)))
	zzverif.Assert(len(out) == len(wants), "exactly-the-valid-matches-are-reported")
	if len(out) != len(wants) {
		return
	}
	for i, w := range wants {
		r := out[i]
		f, _ := r["f"].(int)
		l, _ := r["l"].(int)
		n, _ := r["n"].(float64)
		sm, _ := r["s"].(float64)
		mn, _ := r["mn"].(int)
		zzverif.Assert(f == w.f && l == w.l, "match-is-the-longest-run-from-the-leftmost-start")
		zzverif.Assert(n == float64(w.l-w.f+1) && sm == float64(w.s), "measures-are-evaluated-on-the-run")
		zzverif.Assert(mn == i+1, "match-number-counts-1-2-3-per-partition")
	}
}
