//go:build verif

package aggregator

import (
	"math"

	"github.com/rulego/streamsql/internal/zzverif"
)

var verifAggNames = []AggregateType{"count", "sum", "avg", "min", "max", "first_value", "last_value", "collect", "median", "stddev", "stddevs", "var", "vars", "nth_value", "percentile", "deduplicate", "merge_agg"}

const (
	avInt = iota
	avFloat
	avNil
	avMissing
	avText
	avNumText
	avCount
)

type verifAggRow struct {
	present bool
	val     any
	num     float64 // numeric value when usable
	usable  bool    // convertible to a number
	null    bool    // NULL or missing
}

func verifAggValue(name string, kinds int) verifAggRow {
	switch zzverif.Choose(name+".kind", kinds) {
	case avInt:
		v := int(int8(zzverif.NondetU64(name+".i", 8)))
		if zzverif.Param("tiny", 0) == 1 {
			v = int(zzverif.NondetU64(name+".i4", 3)) // 3-bit values keep sqrt/div queries tractable
		}
		return verifAggRow{present: true, val: v, num: float64(v), usable: true}
	case avFloat:
		h := float64(int8(zzverif.NondetU64(name+".h", 8))) / 2 // halves: exactly representable, exact sums
		return verifAggRow{present: true, val: h, num: h, usable: true}
	case avNil:
		return verifAggRow{present: true, val: nil, null: true}
	case avMissing:
		return verifAggRow{null: true}
	case avText:
		return verifAggRow{present: true, val: "abc"}
	case avNumText:
		return verifAggRow{present: true, val: "2.5", num: 2.5, usable: true}
	}
	panic("kind")
}

// verifAggOracle is the mathematical definition of aggregate `name` over the arrival-ordered rows.
// ok=false: the definition is not pinned down for this input (left open).
func verifAggOracle(name AggregateType, rows []verifAggRow) (want any, ok bool) {
	var nums []float64
	for _, r := range rows {
		if r.usable {
			nums = append(nums, r.num)
		}
	}
	n := len(nums)
	sum := 0.0
	for _, x := range nums {
		sum += x
	}
	switch name {
	case "count":
		c := 0
		for _, r := range rows {
			if r.present && !r.null {
				c++
			}
		}
		return float64(c), true
	case "sum":
		if n == 0 {
			return nil, true
		}
		return sum, true
	case "avg":
		if n == 0 {
			return nil, true
		}
		return sum / float64(n), true
	case "min", "max":
		if n == 0 {
			return nil, true
		}
		m := nums[0]
		for _, x := range nums[1:] {
			if name == "min" {
				m = zzverif.IteF(x < m, x, m)
			} else {
				m = zzverif.IteF(x > m, x, m)
			}
		}
		return m, true
	case "first_value", "last_value":
		// explicit NULL of the first/last row is reported; rows where the column is missing do not count
		var v any
		seen := false
		for _, r := range rows {
			if !r.present {
				continue
			}
			if name == "first_value" && seen {
				continue
			}
			v, seen = r.val, true
		}
		return v, true
	case "collect":
		var out []any
		for _, r := range rows {
			if r.present && !r.null {
				out = append(out, r.val)
			}
		}
		return out, true
	case "median":
		if n == 0 {
			return nil, false
		}
		// insertion sort with the non-branching helper is overkill for n <= 3: enumerate
		sorted := append([]float64(nil), nums...)
		for i := 1; i < len(sorted); i++ {
			for j := i; j > 0; j-- {
				lo := zzverif.IteF(sorted[j] < sorted[j-1], sorted[j], sorted[j-1])
				hi := zzverif.IteF(sorted[j] < sorted[j-1], sorted[j-1], sorted[j])
				sorted[j-1], sorted[j] = lo, hi
			}
		}
		if n%2 == 1 {
			return sorted[n/2], true
		}
		return (sorted[n/2-1] + sorted[n/2]) / 2, true
	case "stddev", "var", "stddevs", "vars":
		if n == 0 {
			return nil, false
		}
		mean := sum / float64(n)
		ss := 0.0
		for _, x := range nums {
			ss += (x - mean) * (x - mean)
		}
		switch name {
		case "var":
			return ss / float64(n), true
		case "stddev":
			if n == 1 {
				return 0.0, true
			}
			return math.Sqrt(ss / float64(n)), true
		case "vars":
			if n < 2 {
				return nil, false
			}
			return ss / float64(n-1), true
		case "stddevs":
			if n < 2 {
				return nil, false
			}
			return math.Sqrt(ss / float64(n-1)), true
		}
	}
	return nil, false
}

func verifSameResult(got, want any) bool {
	if want == nil || got == nil {
		return got == nil && want == nil
	}
	switch w := want.(type) {
	case float64:
		g, ok := got.(float64)
		return ok && g == w
	case int:
		g, ok := got.(int)
		return ok && g == w
	case string:
		g, ok := got.(string)
		return ok && g == w
	case []any:
		g, ok := got.([]any)
		if !ok || len(g) != len(w) {
			return false
		}
		for i := range w {
			if !verifSameResult(g[i], w[i]) {
				return false
			}
		}
		return true
	}
	return false
}

// VerifC03Scalar: aggregates with a scalar result through the real GroupAggregator (NULL skipping,
// numeric coercion) and the registered function chain; two consecutive batches through one instance
// (Reset between them) - the second result must not depend on the first batch.
func VerifC03Scalar() {
	name := verifAggNames[zzverif.Param("fn", 0)]
	n := zzverif.Param("rows", 2)
	kinds := zzverif.Param("kinds", avCount)
	ga := NewGroupAggregator(nil, []AggregationField{{InputField: "v", AggregateType: name, OutputAlias: "r"}})
	for batch := 0; batch < zzverif.Param("batches", 2); batch++ {
		rows := make([]verifAggRow, n)
		for i := range rows {
			rows[i] = verifAggValue("b"+string(rune('0'+batch))+"r"+string(rune('0'+i)), kinds)
			data := map[string]any{"other": 1}
			if rows[i].present {
				data["v"] = rows[i].val
			}
			if err := ga.Add(data); err != nil {
				zzverif.Assert(false, "aggregator-add-error")
			}
		}
		res, err := ga.GetResults()
		zzverif.Assert(err == nil && len(res) == 1, "one-result-for-the-single-group")
		if err != nil || len(res) != 1 {
			return
		}
		want, ok := verifAggOracle(name, rows)
		if ok {
			got := res[0]["r"]
			if f, isF := got.(float64); isF {
				zzverif.ObserveB("isnull", false)
				_ = f
			} else {
				zzverif.ObserveB("isnull", got == nil)
			}
			if name == "stddev" {
				// open finding: the registered stddev divides by n-1 although documented as the
				// population standard deviation; region = at least two usable values
				usable := 0
				for _, r := range rows {
					if r.usable {
						usable++
					}
				}
				zzverif.AssertKF(verifSameResult(got, want), "aggregate-equals-definition", "C03-stddev-sample-divisor", usable >= 2)
			} else {
				zzverif.Assert(verifSameResult(got, want), "aggregate-equals-definition")
			}
		} else {
			zzverif.Cover("definition-open")
		}
		ga.Reset()
	}
}
