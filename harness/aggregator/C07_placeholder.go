//go:build verif

package aggregator

import "github.com/rulego/streamsql/internal/zzverif"

// VerifC07Placeholder: two different aggregate call texts with the same function name never get the
// same placeholder (otherwise `sum(a) + sum(b)` silently becomes `2*sum(a)`).
func VerifC07Placeholder() {
	n := zzverif.Param("len", 6)
	a := "sum(" + zzverif.NondetBytes("a", n) + ")"
	b := "sum(" + zzverif.NondetBytes("b", n) + ")"
	pa := generatePlaceholder("sum", a)
	pb := generatePlaceholder("sum", b)
	zzverif.ObserveB("same", pa == pb)
	zzverif.Assert((pa == pb) == (a == b), "placeholder-identifies-the-call-text")
}
