//go:build verif

package aggregator

import (
	"github.com/rulego/streamsql/internal/zzverif"
)

const (
	gkString = iota
	gkInt64
	gkFloat64
	gkBool
	gkInt
)

// verifGroupVal: the value of one grouping column in one row. state 0 = value of the column's kind,
// 1 = explicit NULL, 2 = column missing from the row.
func verifGroupVal(name string, kind, slen int) (v any, present bool, isNull bool) {
	switch zzverif.Choose(name+".state", 3) {
	case 1:
		return nil, true, true
	case 2:
		return nil, false, true
	}
	switch kind {
	case gkString:
		return zzverif.NondetString(name+".s", slen), true, false
	case gkInt64:
		return zzverif.NondetInt64(name + ".i"), true, false
	case gkFloat64:
		f := zzverif.NondetF64(name + ".f")
		zzverif.Assume(f == f) // NaN group keys are outside the claim (NaN != NaN)
		return f, true, false
	case gkBool:
		return zzverif.NondetBool(name + ".b"), true, false
	case gkInt:
		return int(zzverif.NondetInt64(name + ".i")), true, false
	}
	panic("kind")
}

// verifSameVal: equality of two non-NULL values of the same column kind.
func verifSameVal(a, b any) bool {
	switch x := a.(type) {
	case string:
		return x == b.(string)
	case int64:
		return x == b.(int64)
	case int:
		return x == b.(int)
	case float64:
		return x == b.(float64)
	case bool:
		return x == b.(bool)
	}
	panic("kind")
}

var verifCols = []string{"c0", "c1", "c2"}

// VerifC04Aggregator: rows fed to the real GroupAggregator (count(*)) come back as exactly one result
// per distinct tuple of grouping values, each reporting its tuple and the number of its rows.
func VerifC04Aggregator() {
	ncols := zzverif.Param("cols", 1)
	nrows := zzverif.Param("rows", 2)
	slens := []int{zzverif.Param("slen0", 2), zzverif.Param("slen1", 2), zzverif.Param("slen2", 1)}
	kinds := []int{zzverif.Param("k0", 0), zzverif.Param("k1", 0), zzverif.Param("k2", 0)}
	ga := NewGroupAggregator(append([]string(nil), verifCols[:ncols]...), []AggregationField{{InputField: "*", AggregateType: Count, OutputAlias: "n"}})
	vals := make([][]any, nrows)
	nulls := make([][]bool, nrows)
	for r := 0; r < nrows; r++ {
		row := map[string]any{}
		vals[r] = make([]any, ncols)
		nulls[r] = make([]bool, ncols)
		for c := 0; c < ncols; c++ {
			v, present, isNull := verifGroupVal(verifCols[c]+"r"+string(rune('0'+r)), kinds[c], slens[c])
			if present {
				row[verifCols[c]] = v
			}
			vals[r][c], nulls[r][c] = v, isNull
		}
		if err := ga.Add(row); err != nil {
			zzverif.Assert(false, "aggregator-add-error")
		}
	}
	same := func(i, j int) bool {
		eq := true
		for c := 0; c < ncols; c++ {
			var ce bool
			if nulls[i][c] || nulls[j][c] {
				ce = nulls[i][c] && nulls[j][c]
			} else {
				ce = verifSameVal(vals[i][c], vals[j][c])
			}
			eq = zzverif.And(eq, ce)
		}
		return eq
	}
	// number of distinct tuples and size of each row's class, as terms
	distinct := int64(0)
	classSize := make([]int64, nrows)
	for i := 0; i < nrows; i++ {
		first := true
		for j := 0; j < i; j++ {
			first = zzverif.And(first, !same(i, j))
		}
		distinct += zzverif.B2I(first)
		for j := 0; j < nrows; j++ {
			classSize[i] += zzverif.B2I(same(i, j))
		}
	}
	res, err := ga.GetResults()
	zzverif.Assert(err == nil, "aggregator-results-error")
	zzverif.Observe("groups", int64(len(res)))
	zzverif.AssertKF(int64(len(res)) == distinct, "one-result-per-distinct-tuple", "C04-aggregator-key-collision", verifAggRegion(vals, nulls, ncols, nrows))
	if int64(len(res)) != distinct {
		return
	}
	// every row finds exactly one result reporting its tuple, with its class size as count(*)
	for i := 0; i < nrows; i++ {
		found := int64(0)
		for _, g := range res {
			match := true
			for c := 0; c < ncols; c++ {
				gv, has := g[verifCols[c]]
				var ce bool
				if !has {
					ce = false
				} else if nulls[i][c] {
					ce = gv == nil
				} else if gv == nil {
					ce = false
				} else {
					ce = verifSameVal(vals[i][c], gv)
				}
				match = zzverif.And(match, ce)
			}
			cnt, _ := g["n"].(float64)
			match = zzverif.And(match, cnt == float64(classSize[i]))
			found += zzverif.B2I(match)
		}
		zzverif.Assert(found == 1, "row-counted-in-the-group-of-its-own-tuple")
	}
}

// verifAggRegion: the known-finding region (only consulted while the finding is listed as open): some
// string key contains the unit separator or equals the NULL marker.
func verifAggRegion(vals [][]any, nulls [][]bool, ncols, nrows int) bool {
	r := false
	for i := 0; i < nrows; i++ {
		for c := 0; c < ncols; c++ {
			if s, ok := vals[i][c].(string); ok && !nulls[i][c] {
				for k := 0; k < len(s); k++ {
					r = zzverif.Or(r, zzverif.Or(s[k] == 0x1f, s[k] == 0))
				}
			}
		}
	}
	return r
}
