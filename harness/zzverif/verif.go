// Package zzverif is the harness-side API of the symbolic checker (gosym).
//
// It is injected into /repo virtually (go/packages Overlay, go test -overlay) as
// github.com/rulego/streamsql/internal/zzverif; it never exists on disk under /repo.
//
// The functions marked "primitive" are intercepted by the symbolic interpreter, which
// never executes their bodies. Compiled natively, the same functions read the values
// of one solver model from a JSON file, so that the very same harness is the replay test.
package zzverif

import (
	"encoding/json"
	"fmt"
	"math"
	"os"
	"path/filepath"
	"sort"
	"strconv"
	"strings"
	"time"
)

type vector struct {
	Entry   string              `json:"entry"`
	Params  map[string]int64    `json:"params"`
	Values  map[string][]string `json:"values"`
	Choices []int               `json:"choices"`
	Label   string              `json:"label"`
	Known   []string            `json:"known_open"`
}

var (
	cur       *vector
	valPos    map[string]int
	choicePos int
	trace     []string
	fails     []string
	exhausted bool
)

type assumeFail struct{}

func next(name string) (string, bool) {
	if cur == nil {
		return "", false
	}
	l := cur.Values[name]
	p := valPos[name]
	if p >= len(l) {
		exhausted = true
		return "", false
	}
	valPos[name] = p + 1
	return l[p], true
}

// NondetU64 (primitive) returns an arbitrary value of the given bit width.
func NondetU64(name string, bits int) uint64 {
	s, ok := next(name)
	if !ok {
		return 0
	}
	u, _ := strconv.ParseUint(s, 10, 64)
	if bits < 64 {
		u &= (uint64(1) << uint(bits)) - 1
	}
	return u
}

// NondetBool (primitive).
func NondetBool(name string) bool {
	s, ok := next(name)
	return ok && s == "1"
}

// NondetF64 (primitive) returns an arbitrary float64 (any bit pattern class: NaN, ±Inf, ±0 included).
func NondetF64(name string) float64 {
	s, ok := next(name)
	if !ok {
		return 0
	}
	u, _ := strconv.ParseUint(s, 16, 64)
	return math.Float64frombits(u)
}

// Choose (primitive) is a forking choice 0..n-1.
func Choose(name string, n int) int {
	if cur == nil || choicePos >= len(cur.Choices) {
		exhausted = true
		return 0
	}
	c := cur.Choices[choicePos]
	choicePos++
	if c >= n {
		exhausted = true
		return 0
	}
	return c
}

// Assume (primitive) constrains the path.
func Assume(c bool) {
	if !c {
		fails = append(fails, "ASSUME")
		panic(assumeFail{})
	}
}

// Assert (primitive) states an obligation.
func Assert(c bool, label string) {
	if !c {
		fails = append(fails, label)
	}
}

// AssertKF (primitive): obligation with a known-finding region. When the finding kfID is listed as
// open in known_findings.json, violations inside region are reported as KNOWN-FINDING and only
// violations outside it as VIOLATION; otherwise it is an ordinary Assert.
func AssertKF(c bool, label string, kfID string, region bool) {
	if !c {
		fails = append(fails, label)
	}
}

// KnownOpen (primitive) reports whether the finding id is listed as open in known_findings.json.
// Harnesses use it to keep one open finding from masking another obligation's report.
func KnownOpen(id string) bool {
	if cur != nil {
		for _, k := range cur.Known {
			if k == id {
				return true
			}
		}
	}
	return false
}

// Cover (primitive) is a reachability witness.
func Cover(label string) {}

// Observe* (primitive) record a value in the trace compared between interpreter and native run.
func Observe(name string, v int64)   { trace = append(trace, name+"="+strconv.FormatUint(uint64(v), 10)) }
func ObserveB(name string, v bool)   { trace = append(trace, name+"="+strconv.FormatBool(v)) }
func ObserveS(name string, v string) { trace = append(trace, name+"="+strconv.Quote(v)) }

// Param (primitive) reads a concrete configuration parameter of the job.
func Param(name string, def int) int {
	if cur != nil {
		if v, ok := cur.Params[name]; ok {
			return int(v)
		}
	}
	return def
}

// Symbolic (primitive) reports whether the harness runs inside the symbolic interpreter.
func Symbolic() bool { return false }

// Non-branching boolean helpers (primitives): oracles written with them do not fork.
func And(a, b bool) bool     { return a && b }
func Or(a, b bool) bool      { return a || b }
func Not(a bool) bool        { return !a }
func Implies(a, b bool) bool { return !a || b }
func IteInt(c bool, a, b int64) int64 {
	if c {
		return a
	}
	return b
}
func IteF(c bool, a, b float64) float64 {
	if c {
		return a
	}
	return b
}
func IteBool(c bool, a, b bool) bool {
	if c {
		return a
	}
	return b
}
func B2I(c bool) int64 {
	if c {
		return 1
	}
	return 0
}

// Yield (primitive) lets the scheduler pick any runnable goroutine.
func Yield() { time.Sleep(2 * time.Millisecond) }

// Quiesce (primitive) runs all other goroutines until they block.
func Quiesce() { time.Sleep(30 * time.Millisecond) }

// ---- derived helpers: ordinary Go, interpreted like any other code ----

func NondetInt64(name string) int64 { return int64(NondetU64(name, 64)) }
func NondetInt(name string) int     { return int(NondetU64(name, 64)) }
func NondetByte(name string) byte   { return byte(NondetU64(name, 8)) }

// NondetBytes returns a string of exactly n arbitrary bytes.
func NondetBytes(name string, n int) string {
	b := make([]byte, n)
	for i := 0; i < n; i++ {
		b[i] = NondetByte(name)
	}
	return string(b)
}

// NondetString returns a string of 0..max arbitrary bytes (forks on the length).
func NondetString(name string, max int) string {
	n := Choose(name+".len", max+1)
	return NondetBytes(name, n)
}

// ---- native replay driver ----

// RunReplay runs every vector file in $VERIF_REPLAY_DIR (sorted) against the harness entry it names.
func RunReplay(entries map[string]func()) {
	dir := os.Getenv("VERIF_REPLAY_DIR")
	if dir == "" {
		return
	}
	files, _ := filepath.Glob(filepath.Join(dir, "*.json"))
	sort.Strings(files)
	for _, f := range files {
		data, err := os.ReadFile(f)
		if err != nil {
			fmt.Printf("VERIF-ERROR %s %v\n", f, err)
			continue
		}
		v := &vector{}
		if err := json.Unmarshal(data, v); err != nil {
			fmt.Printf("VERIF-ERROR %s %v\n", f, err)
			continue
		}
		fn := entries[v.Entry]
		if fn == nil {
			fmt.Printf("VERIF-ERROR %s unknown entry %s\n", f, v.Entry)
			continue
		}
		cur, valPos, choicePos, trace, fails, exhausted = v, map[string]int{}, 0, nil, nil, false
		panicked := ""
		func() {
			defer func() {
				if r := recover(); r != nil {
					if _, ok := r.(assumeFail); ok {
						return
					}
					panicked = fmt.Sprint(r)
				}
			}()
			fn()
		}()
		if panicked != "" {
			fails = append(fails, "panic: "+panicked)
		}
		fmt.Printf("VERIF-RESULT file=%s exhausted=%v fails=%s\n", filepath.Base(f), exhausted, strconv.Quote(strings.Join(fails, "|")))
		fmt.Printf("VERIF-TRACE file=%s %s\n", filepath.Base(f), strings.Join(trace, ";"))
	}
	cur = nil
}
